(* C02s driver for the plain BDD kind: EDGE-LEVEL replay of the operations of
   crates/oxidd-rules-bdd/src/simple/apply_rec.rs on the extracted Gallina model coq/DD/Apply.v
   (apply_not / apply_bin incl. terminal_bin / apply_ite, mk_var, mk_const, eval_edge, cofactors; the model
   the theorems C02_apply_*, C02_bdd_edge_* of coq/Props/C02.v are about).

   The trace of harness/src/bin/h_dd.rs is cut into SEGMENTS = the operations between two consecutive
   snapshots (histories carry a snapshot after every operation: one operation per segment; the all-pairs
   cases have 65536 operations between two snapshots, none of which creates a node).  For a segment without
   a restructuring operation (gc, reordering, add_vars, parallel block):

   frame   every node of the PRE snapshot is still stored in the POST snapshot with the same level and children
           (C02_bdd_edge_*_tight, first part: the operations only add nodes);
   replay  every NOT/NOTO, AND..IMPS, ITE, VAR/NVAR, CONST whose operand slots still hold what the pre
           snapshot shows is run by the EXTRACTED model on the lifted PRE snapshot, with the direct-mapped
           cache model of coq/DD/Cache.v (bucket count from the case header, a hash function of the driver's
           choice: the theorems hold for every hash) and the id order as operand order.  Required:
           - the model is defined (hypothesis bdd_ok_b is evaluated on the pre snapshot);
           - every node the model creates (level, children) exists in the post snapshot under an id that is
             not in the pre snapshot -- this yields the renaming rho of the model's new ids;
           - rho(model result) = the edge the destination slot holds in the post snapshot (when the slot is
             not overwritten later in the segment); in particular the very same edge when the result existed;
             (GLUE: whenever the model creates a node these two points are decided by the EXTRACTED, PROVED checker
             [Model.iso_with] of coq/DD/IsoCheck.v - embedding of the model's table into the post table by an
             injective renaming that fixes the pre ids and maps the result edge, C20_iso_check_sound/_complete -;
             the former hand-written matching only words the message when the checker rejects, statistic
             [iso_disagree] if it finds nothing; GLUE_CROSS=1: also run on every accepted table)
           - the value table of the model's result in the model's post table = the value table of the real
             result in the real post table (prop verdict if not);
           every 8th operation a second time without cache and with the reverse operand order: the same
           table and the same edge as the first run (C02_bdd_edge_*_deterministic);
   extra   if every operation of the segment that can create a node was replayed: every node of the post
           snapshot that is not in the pre snapshot is the image of a node the model created (the
           implementation creates no node the verified model does not create; by C02_bdd_edge_*_tight the
           model's new nodes are exactly the new part of the result's diagram);
   EVAL    eval_edge on all assignments (argument list as the harness passes it, and the list with every
           variable given twice) = the printed table;
   COF     cofactors = the two edges the destination slots hold (or none).

   prop = the value tables differ (a concrete wrong result of the property's own predicate);
   corr = same function but another edge / another node set / model undefined / hypothesis false. *)
open Conv
open Dd_types

let () = ignore (Array.length Sys.argv)
let glue_cross = Sys.getenv_opt "GLUE_CROSS" <> None

type opr = { ostep : int; otoks : string list; ores : string }

let bop_of = function
  | "AND" -> Some Model.OAnd | "OR" -> Some Model.OOr | "XOR" -> Some Model.OXor
  | "EQUIV" -> Some Model.OEquiv | "NAND" -> Some Model.ONand | "NOR" -> Some Model.ONor
  | "IMP" -> Some Model.OImp | "IMPS" -> Some Model.OImpStrict | _ -> None

(* operand order standing for the address order of the code, and its reverse *)
let rkey (r : Model.ref) : int * Z.t = match r with Model.RT t -> (0, z_of_n t) | Model.RN p -> (1, z_of_pos p)
let gt_fwd a b = compare (rkey a) (rkey b) > 0
let gt_rev a b = compare (rkey b) (rkey a) > 0

(* hash of the direct-mapped cache model (a parameter of the theorems) *)
let hash_key (k : Model.dm_key) : Model.n =
  let h = ref (Z.to_int (z_of_n k.Model.k_op)) in
  List.iter
    (fun (e : Model.edge) ->
      let a, b = rkey e.Model.eref in
      h := ((!h * 31) + (a * 7) + Z.to_int (Z.rem b (Z.of_int 1000003))) land 0xFFFFFF)
    k.Model.k_eops;
  n_of_int !h

let show_ref (r : Model.ref) = show_edge { Model.eref = r; Model.etag = false }
let node_key (lvl : int) (ch : string list) = string_of_int lvl ^ "|" ^ String.concat "|" ch

let strip (x : ((Model.snap * 'c) * Model.ref) option) : (Model.snap * Model.ref) option =
  match x with Some ((s', _), r) -> Some (s', r) | None -> None

type klass = Replay | Read | Neutral | Restructure | Opaque

let classify (o : opr) : klass =
  if starts_with o.ores "err skip" || starts_with o.ores "err unsupported" then Neutral
  else if starts_with o.ores "err" then Opaque
  else
    match o.otoks with
    | ("NOT" | "NOTO" | "VAR" | "NVAR" | "CONST" | "ITE" | "AND" | "OR" | "XOR" | "EQUIV" | "NAND" | "NOR" | "IMP" | "IMPS") :: _ -> Replay
    | ("EVAL" | "COF") :: _ -> Read
    | ("CLONE" | "DROP" | "DROPT" | "DROPALL" | "EQ" | "NC" | "SAT" | "SATVALID") :: _ -> Neutral
    | ("VARS" | "ORDER" | "ORDERSEQ" | "GC" | "PGC" | "LEVELDOWN" | "PAR" | "ENDPAR" | "EV" | "EVSTAT" | "FILL" | "BIGFILL"
      | "SESSION" | "BIGORDER") :: _ -> Restructure
    | _ -> Opaque

(* slots an operation writes (over-approximated for operations this driver does not interpret) *)
let writes (o : opr) : [ `All | `Slots of int list ] =
  match classify o, o.otoks with
  | _, [ "DROPALL" ] -> `All
  | Neutral, [ ("DROP" | "DROPT"); a ] -> `Slots [ slot_of a ]
  | Neutral, [ "CLONE"; d; _ ] -> `Slots [ slot_of d ]
  | Neutral, _ -> `Slots []
  | Read, [ "COF"; dt; de; _ ] -> if starts_with o.ores "none" then `Slots [] else `Slots [ slot_of dt; slot_of de ]
  | Read, _ -> `Slots []
  | Replay, _ :: d :: _ -> `Slots [ slot_of d ]
  | _, toks -> `Slots (List.filter_map (fun t -> if starts_with t "h" then (try Some (slot_of t) with _ -> None) else None) toks)

let () =
  iter_cases stdin (fun c ->
      let kname = match param c "kind" with Some k -> k | None -> "bdd" in
      if kname <> "bdd" then (stat "c02s_skipped_cases" 1; verdict_ok c)
      else begin
        let nb = max 1 (param_int c "cache" 4096) in
        let failed = ref false in
        let fail step kind msg =
          stat "c02s_bad" 1;
          if Sys.getenv_opt "DD_DEBUG" <> None then Printf.eprintf "[%s step %d] C02 %s: %s\n" (case_id c) step kind msg;
          if not !failed then (
            failed := true;
            verdict_bad c step kind (Printf.sprintf "prop=C02 %s" msg))
        in
        let since : opr list ref = ref [] in
        let prev : psnap option ref = ref None in
        let counter = ref 0 in

        let process_segment (step : int) (pp : psnap) (ps : psnap) (seg : opr list) =
          stat "c02s_segments" 1;
          let n = Array.length pp.l2v in
          let s = pp.snap in
          let fuel = nat (n + 1) in
          (* pre / post node tables *)
          let pre_ids : (int, int * string list) Hashtbl.t = Hashtbl.create 256 in
          let post_ids : (int, int * string list) Hashtbl.t = Hashtbl.create 256 in
          let post_by_key : (string, int) Hashtbl.t = Hashtbl.create 256 in
          let shape (nd : Model.node) = (int_of_nat nd.Model.nlevel, List.map show_edge nd.Model.nchildren) in
          let id_of p = Z.to_int (Z.pred (z_of_pos p)) in
          List.iter (fun (p, nd) -> Hashtbl.replace pre_ids (id_of p) (shape nd)) (Model.PositiveMap.elements s.Model.s_nodes);
          List.iter
            (fun (p, nd) ->
              let l, ch = shape nd in
              Hashtbl.replace post_ids (id_of p) (l, ch);
              Hashtbl.replace post_by_key (node_key l ch) (id_of p))
            (Model.PositiveMap.elements ps.snap.Model.s_nodes);
          (* index of the post table for the extracted checker (built when the first node is created) *)
          let ix = lazy (Model.build_idx ps.snap) in
          let frame_ok = ref true in
          (* frame *)
          Hashtbl.iter
            (fun id (l, ch) ->
              match Hashtbl.find_opt post_ids id with
              | Some (l', ch') when l = l' && ch = ch' -> ()
              | Some (l', ch') ->
                frame_ok := false;
                fail step "corr"
                  (Printf.sprintf "node n%d (level %d, children %s) of the table before the operation is (level %d, children %s) afterwards: an operation that is not a collection or reordering changed a stored node"
                     id l (String.concat " " ch) l' (String.concat " " ch'))
              | None ->
                frame_ok := false;
                fail step "corr"
                  (Printf.sprintf "node n%d (level %d, children %s) disappeared during [%s] (no collection in between)" id l
                     (String.concat " " ch) (String.concat "; " (List.map (fun o -> String.concat " " o.otoks) seg))))
            pre_ids;
          let hyp_ok = Model.bdd_ok_b s in
          let pre_h : (int, Model.edge) Hashtbl.t = Hashtbl.create 64 in
          List.iter (fun (sl, e) -> Hashtbl.replace pre_h sl e) pp.handles;
          let post_h : (int, Model.edge) Hashtbl.t = Hashtbl.create 64 in
          List.iter (fun (sl, e) -> Hashtbl.replace post_h sl e) ps.handles;
          (* last writer of every slot *)
          let arr = Array.of_list seg in
          let last_w : (int, int) Hashtbl.t = Hashtbl.create 64 in
          let last_all = ref (-1) in
          Array.iteri
            (fun i o -> match writes o with `All -> last_all := i | `Slots l -> List.iter (fun sl -> Hashtbl.replace last_w sl i) l)
            arr;
          let written : (int, unit) Hashtbl.t = Hashtbl.create 64 in
          let all_written = ref false in
          let covered : (int, unit) Hashtbl.t = Hashtbl.create 64 in
          let complete = ref true in
          let src_edge sl = if !all_written || Hashtbl.mem written sl then None else Hashtbl.find_opt pre_h sl in
          let dst_edge i sl =
            if !last_all > i then None
            else match Hashtbl.find_opt last_w sl with Some j when j = i -> Hashtbl.find_opt post_h sl | _ -> None in
          (* one model run: result table + edge, compared with the post snapshot *)
          let check_run (o : opr) (what : string) (res : (Model.snap * Model.ref) option) (d : Model.edge option) : (Model.snap * Model.ref) option =
            match res with
            | None ->
              fail o.ostep "corr" (Printf.sprintf "%s: the model is undefined on a snapshot that satisfies the hypotheses" what);
              None
            | Some (s', r) ->
              let rho : (int, string) Hashtbl.t = Hashtbl.create 16 in
              let name_hand (e : Model.edge) =
                match e.Model.eref with
                | Model.RT _ -> Some (show_edge e)
                | Model.RN p ->
                  let i = id_of p in
                  if Hashtbl.mem pre_ids i then Some (show_edge e) else Hashtbl.find_opt rho i in
              let news =
                if s' == s then []     (* the model returned the table it was given: nothing created *)
                else List.filter (fun (p, _) -> not (Hashtbl.mem pre_ids (id_of p))) (Model.PositiveMap.elements s'.Model.s_nodes) in
              let news = List.sort (fun (a, _) (b, _) -> Z.compare (z_of_pos a) (z_of_pos b)) news in
              stat "c02s_model_new_nodes" (List.length news);
              (* the former hand-written matching: fills [rho] / [covered], returns the first model node without counterpart *)
              let hand () : string option =
                let missing = ref None in
                List.iter
                  (fun (p, nd) ->
                    if !missing = None then (
                      let chs = List.map name_hand nd.Model.nchildren in
                      if List.mem None chs then missing := Some (Printf.sprintf "n%d (child not resolved)" (id_of p))
                      else (
                        let l = int_of_nat nd.Model.nlevel in
                        let key = node_key l (List.map Option.get chs) in
                        match Hashtbl.find_opt post_by_key key with
                        | Some j when not (Hashtbl.mem pre_ids j) ->
                          Hashtbl.replace rho (id_of p) ("n" ^ string_of_int j);
                          Hashtbl.replace covered j ()
                        | _ -> missing := Some (Printf.sprintf "(level %d, children %s)" l (String.concat " " (List.map Option.get chs))))))
                  news;
                !missing in
              let re = { Model.eref = r; Model.etag = false } in
              let missing, name =
                if s' == s then (hand (), name_hand)     (* nothing created: the result edge is compared literally *)
                else begin
                  stat "iso_extracted_checks" 1;
                  stat "iso_disagree" 0;
                  let fixed (p : Model.positive) = Model.find_node s p <> None in
                  match Model.iso_with (Lazy.force ix) false false fixed s' ps.snap (match d with Some d -> [ (re, d) ] | None -> []) with
                  | Some rm ->
                    let name (e : Model.edge) =
                      match e.Model.eref with
                      | Model.RT _ -> Some (show_edge e)
                      | Model.RN p ->
                        if fixed p then Some (show_edge e)
                        else (match Model.rmap_find rm p with
                              | Some b -> Some (show_edge { e with Model.eref = Model.RN b })
                              | None -> None) in
                    List.iter
                      (fun (p, _) -> match Model.rmap_find rm p with Some b -> Hashtbl.replace covered (id_of b) () | None -> ())
                      news;
                    if glue_cross && (hand () <> None || (d <> None && name_hand re <> name re)) then stat "iso_disagree" 1;
                    (None, name)
                  | None ->
                    let m = hand () in
                    if m = None && !frame_ok && (match d with Some d -> name_hand re = Some (show_edge d) | None -> true) then begin
                      stat "iso_disagree" 1;
                      (Some "(the extracted checker IsoCheck.iso_with rejects the table; the hand-written matching finds no difference)", name_hand)
                    end else (m, name_hand)
                end in
              let tables () =
                match d with
                | None -> None
                | Some d -> (match value_table { pp with snap = s' } { Model.eref = r; Model.etag = false }, value_table ps d with
                             | Some tm, Some ti -> Some (tm, ti) | _ -> None) in
              let differ () = match tables () with Some (tm, ti) when tm <> ti -> Some (tm, ti) | _ -> None in
              (match missing with
               | Some m ->
                 (match differ () with
                  | Some (tm, ti) ->
                    fail o.ostep "prop" (Printf.sprintf "%s: result table %s, the verified model computes %s" what (show_vt ti) (show_vt tm))
                  | None ->
                    fail o.ostep "corr" (Printf.sprintf "%s: the model creates the node %s; the implementation's table does not contain it as a new node after the operation" what m))
               | None ->
                 (match d with
                  | None -> stat "c02s_result_slot_overwritten" 1
                  | Some d ->
                    let rm = name { Model.eref = r; Model.etag = false } in
                    if rm = Some (show_edge d) then (
                      stat "c02s_same_edge" 1;
                      if n <= 4 || Array.length arr <= 2 then
                        match tables () with
                        | Some (tm, ti) when tm <> ti ->
                          fail o.ostep "prop" (Printf.sprintf "%s: result table %s, the verified model computes %s" what (show_vt ti) (show_vt tm))
                        | Some _ -> stat "c02s_same_table" 1
                        | None -> fail o.ostep "corr" (what ^ ": interpretation of the result undefined"))
                    else
                      match differ () with
                      | Some (tm, ti) ->
                        fail o.ostep "prop" (Printf.sprintf "%s: result table %s, the verified model computes %s" what (show_vt ti) (show_vt tm))
                      | None ->
                        fail o.ostep "corr"
                          (Printf.sprintf "%s: implementation returned %s, the model %s (same function)" what (show_edge d)
                             (match rm with Some x -> x | None -> "?"))));
              Some (s', r)
          in
          let same_run (o : opr) what (a : (Model.snap * Model.ref) option) (b : (Model.snap * Model.ref) option) =
            match a, b with
            | Some (s1, r1), Some (s2, r2) ->
              let same_tables =
                (s1 == s && s2 == s)
                || Model.PositiveMap.elements s1.Model.s_nodes = Model.PositiveMap.elements s2.Model.s_nodes in
              if not (Model.ref_eqb r1 r2 && same_tables) then
                fail o.ostep "corr" (what ^ ": the model's result (table, edge) depends on the cache / the operand order (contradicts C02_bdd_edge_*_deterministic)")
              else stat "c02s_second_run_same" 1
            | None, None -> ()
            | _ -> fail o.ostep "corr" (what ^ ": the model is defined with one cache and undefined with another")
          in
          Array.iteri
            (fun i o ->
              let what = String.concat " " o.otoks in
              (match classify o with
               | Restructure -> ()
               | Opaque -> complete := false
               | Neutral -> ()
               | Replay when not hyp_ok ->
                 fail o.ostep "corr" "the snapshot does not satisfy the hypothesis of the C02 BDD theorems (bdd_ok_b)"
               | Read when not hyp_ok -> ()
               | Replay ->
                 incr counter;
                 let second = !counter land 7 = 0 in
                 let dm0 = Model.dm_init (pos_of_z (Z.of_int nb)) (nat 8) in
                 let dget = Model.dmr_get hash_key and dadd = Model.dmr_add hash_key in
                 (match o.otoks with
                  | [ ("NOT" | "NOTO"); dst; a ] ->
                    (match src_edge (slot_of a) with
                     | Some ea ->
                       stat "c02s_model_not" 1;
                       let r1 = check_run o what (strip (Model.apply_not dget dadd fuel s dm0 ea.Model.eref)) (dst_edge i (slot_of dst)) in
                       if second then same_run o what r1 (strip (Model.apply_not Model.nc_get Model.nc_add fuel s () ea.Model.eref))
                     | None -> stat "c02s_unresolved" 1; complete := false)
                  | [ op; dst; a; b ] when bop_of op <> None ->
                    (match src_edge (slot_of a), src_edge (slot_of b), bop_of op with
                     | Some ea, Some eb, Some bo ->
                       stat "c02s_model_bin" 1;
                       let r1 = check_run o what (strip (Model.apply_bin gt_fwd dget dadd fuel s dm0 bo ea.Model.eref eb.Model.eref)) (dst_edge i (slot_of dst)) in
                       if second then
                         same_run o what r1 (strip (Model.apply_bin gt_rev Model.nc_get Model.nc_add fuel s () bo ea.Model.eref eb.Model.eref))
                     | _ -> stat "c02s_unresolved" 1; complete := false)
                  | [ "ITE"; dst; a; b; cc ] ->
                    (match src_edge (slot_of a), src_edge (slot_of b), src_edge (slot_of cc) with
                     | Some ea, Some eb, Some ec ->
                       stat "c02s_model_ite" 1;
                       let r1 = check_run o what
                           (strip (Model.apply_ite gt_fwd dget dadd fuel s dm0 ea.Model.eref eb.Model.eref ec.Model.eref)) (dst_edge i (slot_of dst)) in
                       if second then
                         same_run o what r1
                           (strip (Model.apply_ite gt_rev Model.nc_get Model.nc_add fuel s () ea.Model.eref eb.Model.eref ec.Model.eref))
                     | _ -> stat "c02s_unresolved" 1; complete := false)
                  | [ (("VAR" | "NVAR") as k); dst; v ] ->
                    let v = int_of_string v in
                    if v < n then (
                      stat "c02s_model_var" 1;
                      ignore (check_run o what (Model.mk_var s (nat v) (k = "NVAR")) (dst_edge i (slot_of dst))))
                    else complete := false
                  | [ "CONST"; dst; b ] ->
                    stat "c02s_model_const" 1;
                    ignore (check_run o what (Option.map (fun r -> (s, r)) (Model.mk_const s (b = "1"))) (dst_edge i (slot_of dst)))
                  | _ -> complete := false)
               | Read ->
                 (match o.otoks with
                  | [ "EVAL"; a ] ->
                    (match src_edge (slot_of a), split_ws o.ores with
                     | Some ea, ("tt" :: nn :: hex :: rest) when int_of_string nn = n ->
                       stat "c02s_model_eval" 1;
                       let tab = Z.of_string_base 16 hex in
                       let dup_impl = not (List.mem "dup=0" rest) in
                       let interp = value_table pp ea in
                       (try
                          for idx = 0 to (1 lsl n) - 1 do
                            let bit v = (idx lsr v) land 1 = 1 in
                            let args = List.init n (fun v -> (nat v, bit v)) in
                            let twice = List.init n (fun k -> let v = n - 1 - k in (nat v, not (bit v))) @ args in
                            match Model.eval_edge s ea.Model.eref args, Model.eval_edge s ea.Model.eref twice with
                            | Some b, Some b2 ->
                              if b <> Z.testbit tab idx then (
                                let agrees = match interp with Some t -> (t.(idx) = 1) = b | None -> true in
                                fail o.ostep (if agrees then "prop" else "corr")
                                  (Printf.sprintf "%s: eval under assignment %d is %b, the verified model's eval walk gives %b" what idx (Z.testbit tab idx) b);
                                raise Exit);
                              if b2 <> b then (fail o.ostep "corr" (what ^ ": the model's eval depends on an overwritten duplicate argument"); raise Exit)
                            | _ -> fail o.ostep "corr" (what ^ ": the model's eval is undefined"); raise Exit
                          done;
                          if not dup_impl then
                            fail o.ostep "prop" (what ^ ": eval with every variable listed twice differs from eval with the last values (the model's choices_of lets the last value count)")
                        with Exit -> ())
                     | _ -> stat "c02s_unresolved" 1)
                  | [ "COF"; dt; de; a ] ->
                    (match src_edge (slot_of a) with
                     | Some ea ->
                       stat "c02s_model_cof" 1;
                       (match Model.cofactors s ea.Model.eref with
                        | None ->
                          if not (starts_with o.ores "none") then
                            fail o.ostep "prop" (what ^ ": cofactors returned Some, the model None (the edge points to a terminal)")
                        | Some (t, x) ->
                          if starts_with o.ores "none" then fail o.ostep "prop" (what ^ ": cofactors returned None for an inner node")
                          else (
                            if List.mem "single_agree=0" (split_ws o.ores) then
                              fail o.ostep "prop" (what ^ ": cofactor_true / cofactor_false differ from cofactors");
                            match (if slot_of dt = slot_of de then None else dst_edge i (slot_of dt)), dst_edge i (slot_of de) with
                            | Some gt, Some ge ->
                              if not (Model.ref_eqb gt.Model.eref t && Model.ref_eqb ge.Model.eref x) then
                                fail o.ostep "prop"
                                  (Printf.sprintf "%s: cofactors are (%s, %s), the model's (%s, %s)" what (show_edge gt) (show_edge ge)
                                     (show_ref t) (show_ref x))
                            | _ -> stat "c02s_unresolved" 1))
                     | None -> stat "c02s_unresolved" 1)
                  | _ -> ()));
              (match writes o with
               | `All -> all_written := true
               | `Slots l -> List.iter (fun sl -> Hashtbl.replace written sl ()) l))
            arr;
          (* extra nodes *)
          if !complete && hyp_ok then (
            stat "c02s_complete_segments" 1;
            Hashtbl.iter
              (fun id (l, ch) ->
                if not (Hashtbl.mem pre_ids id) then (
                  stat "c02s_impl_new_nodes" 1;
                  if not (Hashtbl.mem covered id) then
                    fail step "corr"
                      (Printf.sprintf "the implementation created node n%d (level %d, children %s) during [%s]; the verified model creates no such node (only the new part of the result's diagram is created)"
                         id l (String.concat " " ch)
                         (let l = List.map (fun o -> String.concat " " o.otoks) seg in
                          if List.length l <= 3 then String.concat "; " l else Printf.sprintf "%d operations" (List.length l)))))
              post_ids)
          else stat "c02s_incomplete_segments" 1
        in

        List.iteri
          (fun i l ->
            if l = "HANG" || starts_with l "PANIC" || starts_with l "CRASH" then ()   (* reported by the DD driver *)
            else
              let ops, res = split_arrow l in
              let toks = split_ws ops in
              match toks with
              | [ "SNAP" ] ->
                (try
                   let ps = parse_snapshot kname res in
                   stat "c02s_snapshots" 1;
                   let seg = List.rev !since in
                   (match !prev with
                    | Some pp when seg <> [] ->
                      (* (a collection / reordering the trace does not show - the background collector of a small
                         manager - also ends the validity of the pre snapshot's ids) *)
                      if List.exists (fun o -> classify o = Restructure) seg || pp.gc <> ps.gc || pp.reorder <> ps.reorder
                         || Array.length pp.l2v <> Array.length ps.l2v then stat "c02s_restructured_segments" 1
                      else process_segment i pp ps seg
                    | _ -> ());
                   prev := Some ps;
                   since := []
                 with Failure m -> fail i "corr" ("driver: " ^ m))
              | [] -> ()
              | _ -> since := { ostep = i; otoks = toks; ores = res } :: !since)
          c.lines;
        stat "c02s_cases" 1;
        if not !failed then verdict_ok c
      end);
  dump_stats ()
