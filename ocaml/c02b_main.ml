(* C02 driver for the complement-edge kind (BCDD): replays, on every lifted
   snapshot of the trace of harness/src/bin/h_dd.rs, the operations recorded
   since the previous snapshot on the extracted Gallina model of
   coq/DD/ApplyBcdd.v (the model the theorems C02_bcdd_* of coq/Props/C02.v are
   about) and compares with what the real code returned:

   NOT/NOTO, the 8 binary operators, ITE
           the model operator is run on the snapshot with the operands' edges.
           The snapshot already contains the real result; by the theorems
           (result function already has an edge => that edge is returned, table
           unchanged) the model must return exactly the real result edge and
           must not need any node the real code did not create.
           (prop)  the value table of the model's result (= the pointwise
                   connective, by the soundness theorems) differs from the value
                   table of the real result;
           (corr)  same function, but another edge / an additional node / the
                   model is undefined.
           Every 8th operation is replayed a second time without a cache and
           with the reverse operand order (the theorems hold for every lossy
           cache and every order): same result required.
   VAR/NVAR, CONST   cmk_var / cmk_const: same edge, no new node.
   EVAL    ceval_edge with the argument list of the harness ((v, bit v) for
           v = 0..n-1) on every assignment: the same bits as the real eval.
   COF     ccofactors: the same two edges (or none).
   The hypothesis of the theorems (bcok_b) is evaluated on every snapshot; a
   failure is a corr verdict.  Cases of other kinds are skipped. *)
open Conv
open Dd_types

let () = ignore (Array.length Sys.argv)

type pend = { pstep : int; ptoks : string list; pres : string; pver : (int * int) list }

let nodes_of (s : Model.snap) : int = List.length (Model.PositiveMap.elements s.Model.s_nodes)

let bop_of = function
  | "AND" -> Some Model.OAnd | "OR" -> Some Model.OOr | "XOR" -> Some Model.OXor
  | "EQUIV" -> Some Model.OEquiv | "NAND" -> Some Model.ONand | "NOR" -> Some Model.ONor
  | "IMP" -> Some Model.OImp | "IMPS" -> Some Model.OImpStrict | _ -> None

(* an edge order standing for the address order of the code, and its reverse *)
let key (e : Model.edge) : int * Z.t * bool =
  match e.Model.eref with
  | Model.RT t -> (0, z_of_n t, e.Model.etag)
  | Model.RN p -> (1, z_of_pos p, e.Model.etag)
let lt_fwd a b = compare (key a) (key b) < 0
let lt_rev a b = compare (key b) (key a) < 0

let () =
  iter_cases stdin (fun c ->
      let kname = match param c "kind" with Some k -> k | None -> "bdd" in
      if kname <> "bcdd" then (stat "c02b_skipped_cases" 1; verdict_ok c)
      else begin
      let tts : (int, vt) Hashtbl.t = Hashtbl.create 64 in
      let ver : (int, int) Hashtbl.t = Hashtbl.create 64 in
      let epoch = ref 0 in       (* DROPALL invalidates every slot at once *)
      let count s = try Hashtbl.find ver s with Not_found -> 0 in
      let version s = (!epoch * 10_000_000) + count s in
      let bump s = Hashtbl.replace ver s (count s + 1) in
      let pending : pend list ref = ref [] in
      let failed = ref false in
      let counter = ref 0 in
      let fail step kind msg =
        stat "c02b_bad" 1;
        if Sys.getenv_opt "DD_DEBUG" <> None then Printf.eprintf "[%s step %d] C02 %s: %s\n" (case_id c) step kind msg;
        if not !failed then (
          failed := true;
          verdict_bad c step kind (Printf.sprintf "prop=C02 %s" msg))
      in

      let resolve (_step : int) (ps : psnap) =
        let n = Array.length ps.l2v in
        let s = ps.snap in
        let fuel = nat (n + 1) in
        let htab : (int, Model.edge) Hashtbl.t = Hashtbl.create (2 * List.length ps.handles + 1) in
        List.iter (fun (sl, e) -> Hashtbl.replace htab sl e) ps.handles;
        let edge_of sl = Hashtbl.find_opt htab (slot_of sl) in
        let hyp_ok = Model.bcok_b s in
        (* compare a model result with the real result edge [d] *)
        let compare_result pstep what res (d : Model.edge) =
          match res with
          | None -> fail pstep "corr" (Printf.sprintf "%s: the model is undefined on a snapshot that satisfies the hypotheses" what)
          | Some ((s', _), r) ->
            if Model.edge_eqb r d && nodes_of s' = nodes_of s then stat "c02b_same_edge" 1
            else (
              (* same function? *)
              let ps' = { ps with snap = s' } in
              match value_table ps' r, value_table ps d with
              | Some tm, Some ti when tm <> ti ->
                fail pstep "prop"
                  (Printf.sprintf "%s: result table %s, the verified model computes %s" what (show_vt ti) (show_vt tm))
              | Some _, Some _ ->
                if not (Model.edge_eqb r d) then
                  fail pstep "corr" (Printf.sprintf "%s: implementation returned %s, model %s (same function)" what (show_edge d) (show_edge r))
                else fail pstep "corr" (Printf.sprintf "%s: the model needs a node that the implementation did not create" what)
              | _ -> fail pstep "corr" (Printf.sprintf "%s: interpretation of the result undefined" what))
        in
        List.iter
          (fun p ->
            let fresh = List.for_all (fun (sl, v) -> version sl = v) p.pver in
            if not fresh then stat "c02b_unresolved" 1
            else if not hyp_ok then fail p.pstep "corr" "the snapshot does not satisfy the hypothesis of the C02 BCDD theorems (bcok_b)"
            else (
              let what = String.concat " " p.ptoks in
              incr counter;
              let second = !counter land 7 = 0 in
              match p.ptoks with
              | [ ("NOT" | "NOTO"); dst; a ] ->
                (match edge_of a, edge_of dst with
                 | Some ea, Some d ->
                   stat "c02b_model_not" 1;
                   compare_result p.pstep what (Model.capply_not s [] ea) d
                 | _ -> stat "c02b_unresolved" 1)
              | [ op; dst; a; b ] when bop_of op <> None ->
                (match edge_of a, edge_of b, edge_of dst, bop_of op with
                 | Some ea, Some eb, Some d, Some o ->
                   stat "c02b_model_bin" 1;
                   compare_result p.pstep what (Model.capply_op lt_fwd Model.eac_get Model.eac_add fuel s [] o ea eb) d;
                   if second then (
                     stat "c02b_model_bin_nocache_rev" 1;
                     compare_result p.pstep (what ^ " (no cache, reverse operand order)")
                       (Model.capply_op lt_rev Model.enc_get Model.enc_add fuel s () o ea eb) d)
                 | _ -> stat "c02b_unresolved" 1)
              | [ "ITE"; dst; a; b; cc ] ->
                (match edge_of a, edge_of b, edge_of cc, edge_of dst with
                 | Some ea, Some eb, Some ec, Some d ->
                   stat "c02b_model_ite" 1;
                   compare_result p.pstep what (Model.capply_ite lt_fwd Model.eac_get Model.eac_add fuel s [] ea eb ec) d;
                   if second then (
                     stat "c02b_model_ite_nocache_rev" 1;
                     compare_result p.pstep (what ^ " (no cache, reverse operand order)")
                       (Model.capply_ite lt_rev Model.enc_get Model.enc_add fuel s () ea eb ec) d)
                 | _ -> stat "c02b_unresolved" 1)
              | [ (("VAR" | "NVAR") as o); dst; v ] ->
                (match edge_of dst with
                 | Some d ->
                   stat "c02b_model_var" 1;
                   let v = int_of_string v in
                   if v < n then
                     compare_result p.pstep what
                       (Option.map (fun (s', r) -> ((s', ()), r)) (Model.cmk_var s (nat v) (o = "NVAR"))) d
                 | None -> stat "c02b_unresolved" 1)
              | [ "CONST"; dst; b ] ->
                (match edge_of dst with
                 | Some d ->
                   stat "c02b_model_const" 1;
                   compare_result p.pstep what (Option.map (fun r -> ((s, ()), r)) (Model.cmk_const s (b = "1"))) d
                 | None -> stat "c02b_unresolved" 1)
              | [ "EVAL"; a ] ->
                (match edge_of a, split_ws p.pres with
                 | Some ea, ("tt" :: nn :: hex :: _) when int_of_string nn = n ->
                   stat "c02b_model_eval" 1;
                   let tab = Z.of_string_base 16 hex in
                   (try
                      for idx = 0 to (1 lsl n) - 1 do
                        let args = List.init n (fun v -> (nat v, (idx lsr v) land 1 = 1)) in
                        match Model.ceval_edge s ea args with
                        | None -> fail p.pstep "corr" (what ^ ": the model's eval is undefined"); raise Exit
                        | Some b ->
                          if b <> Z.testbit tab idx then (
                            (* which of the two agrees with the interpretation? *)
                            let interp = match Hashtbl.find_opt tts (slot_of a) with Some t -> t.(idx) = 1 | None -> b in
                            fail p.pstep (if interp = b then "prop" else "corr")
                              (Printf.sprintf "%s: eval under assignment %d is %b, the verified model's eval walk gives %b" what idx (Z.testbit tab idx) b);
                            raise Exit)
                      done
                    with Exit -> ())
                 | _ -> stat "c02b_unresolved" 1)
              | [ "COF"; dt; de; a ] ->
                (match edge_of a with
                 | Some ea ->
                   stat "c02b_model_cof" 1;
                   (match Model.ccofactors s ea with
                    | None ->
                      if not (starts_with p.pres "none") then
                        fail p.pstep "prop" (what ^ ": cofactors returned Some, the model None (the edge points to the terminal)")
                    | Some (t, x) ->
                      if starts_with p.pres "none" then
                        fail p.pstep "prop" (what ^ ": cofactors returned None for an inner node")
                      else
                        (match edge_of dt, edge_of de with
                         | Some gt, Some ge ->
                           if not (Model.edge_eqb gt t && Model.edge_eqb ge x) then
                             fail p.pstep "prop"
                               (Printf.sprintf "%s: cofactors are (%s, %s), the model's (%s, %s)" what
                                  (show_edge gt) (show_edge ge) (show_edge t) (show_edge x))
                         | _ -> stat "c02b_unresolved" 1))
                 | None -> stat "c02b_unresolved" 1)
              | _ -> ()))
          (List.rev !pending);
        pending := []
      in

      let process_snapshot (step : int) (body : string) =
        stat "c02b_snapshots" 1;
        let ps = parse_snapshot kname body in
        Hashtbl.reset tts;
        List.iter
          (fun (slot, e) ->
            match value_table ps e with
            | Some t -> Hashtbl.replace tts slot t
            | None -> fail step "corr" (Printf.sprintf "handle h%d: interpretation undefined (dangling edge)" slot))
          ps.handles;
        resolve step ps
      in

      List.iteri
        (fun i l ->
          if l = "HANG" || starts_with l "PANIC" || starts_with l "CRASH" then ()   (* reported by the DD driver *)
          else
            let ops, res = split_arrow l in
            let toks = split_ws ops in
            if starts_with res "err" then (
              (* the destination keeps what it had; operations the harness skipped carry no obligation *)
              stat "c02b_skipped_ops" 1)
            else
              match toks with
              | [ "SNAP" ] -> (try process_snapshot i res with Failure m -> fail i "corr" ("driver: " ^ m))
              | [ "EVAL"; a ] ->
                pending := { pstep = i; ptoks = toks; pres = res; pver = [ (slot_of a, version (slot_of a)) ] } :: !pending
              | [ "COF"; dt; de; a ] ->
                (* the source is captured before the destinations are overwritten: a destination that
                   aliases the source makes the operation unresolvable *)
                let va = (slot_of a, version (slot_of a)) in
                if not (starts_with res "none") then (bump (slot_of dt); bump (slot_of de));
                let fresh_a = version (slot_of a) = snd va in
                if fresh_a then
                  pending := { pstep = i; ptoks = toks; pres = res;
                               pver = (if starts_with res "none" then [ va ]
                                       else [ va; (slot_of dt, version (slot_of dt)); (slot_of de, version (slot_of de)) ]) } :: !pending
                else stat "c02b_unresolved" 1
              | [ ("NOT" | "NOTO" | "VAR" | "NVAR" | "CONST" | "ITE" | "AND" | "OR" | "XOR" | "EQUIV" | "NAND" | "NOR" | "IMP" | "IMPS") ; _; _ ]
              | [ ("NOT" | "NOTO" | "VAR" | "NVAR" | "CONST" | "ITE" | "AND" | "OR" | "XOR" | "EQUIV" | "NAND" | "NOR" | "IMP" | "IMPS") ; _; _; _ ]
              | [ ("NOT" | "NOTO" | "VAR" | "NVAR" | "CONST" | "ITE" | "AND" | "OR" | "XOR" | "EQUIV" | "NAND" | "NOR" | "IMP" | "IMPS") ; _; _; _; _ ] ->
                let dst = List.nth toks 1 in
                let srcs = List.filter (fun t -> starts_with t "h") (List.tl (List.tl toks)) in
                (* operand versions before the destination is overwritten *)
                let vs = List.map (fun a -> (slot_of a, version (slot_of a))) srcs in
                bump (slot_of dst);
                let aliased = List.exists (fun (sl, v) -> version sl <> v) vs in
                if aliased then stat "c02b_unresolved" 1
                else
                  pending := { pstep = i; ptoks = toks; pres = res;
                               pver = (slot_of dst, version (slot_of dst)) :: vs } :: !pending
              | ("VARS" | "ORDER" | "ORDERSEQ" | "GC" | "PAR" | "ENDPAR" | "EV" | "EVSTAT" | "PGC") :: _ -> ()
              (* operations that only read their handles *)
              | ("EQ" | "NC" | "SAT" | "SATVALID" | "PICK" | "PICKUNI" | "MKSUBST" | "DROPSUBST" | "FILL") :: _ -> ()
              | [ "DROPALL" ] -> incr epoch
              | [ ("DROP" | "DROPT"); a ] -> bump (slot_of a)
              | ("AEX" | "AFA" | "AUQ") :: _ :: dst :: _ when starts_with dst "h" -> bump (slot_of dst)
              | _ :: dst :: _ when starts_with dst "h" -> bump (slot_of dst)
              | _ -> ())
        c.lines;
      stat "c02b_cases" 1;
      if not !failed then verdict_ok c
      end);
  dump_stats ()
