(* C02 / C04 driver for the ZBDD kind: replays, on every lifted snapshot of the
   trace of harness/src/bin/h_dd.rs, the Boolean-interface operations recorded
   since the previous snapshot on the extracted Gallina model of
   coq/DD/ZbddBool.v (the model the theorems C02_zbdd_* of coq/Props/C02.v and
   C04_zbdd_* of coq/Props/C04.v are about) and compares with what the real
   code returned:

   NOT/NOTO, the 8 binary operators, ITE
           the model operator (zapply_not / zapply_op / zapply_ite) is run on
           the snapshot with the operands' edges.  The snapshot already
           contains the real result; by C02_zbdd_result_unique (one edge per
           view) the model - whose result has the pointwise connective as its
           view by C02_zbdd_apply_*_sound - must return exactly the real
           result edge, and it must not need any node the real code did not
           create.
           (prop)  the value table of the model's result differs from the value
                   table of the real result;
           (corr)  same function, but another edge / an additional node / the
                   model is undefined.
           Every 8th operation is replayed a second time without a cache and
           with the reverse operand order: same result required.
   VAR/NVAR, CONST   zvar / znot_var / zconst: same edge, no new node.
   EVAL    zeval_edge (bit set + ones counter) with the argument list of the
           harness ((v, bit v) for v = 0..n-1) on every assignment: the same
           bits as the real eval.
   COF     zcofactors: the same two edges (or none).
   RESTRICT dst a pos neg   (C04) the cube is built on the snapshot with the
           extracted zvar / znot_var / intersection, as the harness builds it
           with var / not_var / and; zcube_lits must read exactly the literals
           of pos / neg (levels through var_to_level) back from it; then
           zrestrict_edge must return the edge of the real result.
   The hypotheses of the theorems (zbdd_ok_b, zchain_ok_b) are evaluated on
   every snapshot; a failure is a corr verdict.  Cases of other kinds are
   skipped. *)
open Conv
open Dd_types

let () = ignore (Array.length Sys.argv)

type pend = { pstep : int; ptoks : string list; pres : string; pver : (int * int) list; pgc : int }

let nodes_of (s : Model.snap) : int = List.length (Model.PositiveMap.elements s.Model.s_nodes)

let bop_of = function
  | "AND" -> Some Model.OAnd | "OR" -> Some Model.OOr | "XOR" -> Some Model.OXor
  | "EQUIV" -> Some Model.OEquiv | "NAND" -> Some Model.ONand | "NOR" -> Some Model.ONor
  | "IMP" -> Some Model.OImp | "IMPS" -> Some Model.OImpStrict | _ -> None

(* an edge order standing for the address order of the code, and its reverse *)
let rkey (r : Model.ref) : int * Z.t =
  match r with Model.RT t -> (0, z_of_n t) | Model.RN p -> (1, z_of_pos p)
let gt_fwd a b = compare (rkey a) (rkey b) > 0
let gt_rev a b = compare (rkey b) (rkey a) > 0

let untagged (r : Model.ref) : Model.edge = { Model.eref = r; Model.etag = false }

let show_lits (l : (Model.nat * bool) list) =
  String.concat "," (List.map (fun (lv, b) -> Printf.sprintf "%d%s" (int_of_nat lv) (if b then "+" else "-")) l)

let () =
  iter_cases stdin (fun c ->
      let kname = match param c "kind" with Some k -> k | None -> "bdd" in
      if kname <> "zbdd" then (stat "c02z_skipped_cases" 1; verdict_ok c)
      else begin
      let tts : (int, vt) Hashtbl.t = Hashtbl.create 64 in
      let ver : (int, int) Hashtbl.t = Hashtbl.create 64 in
      let epoch = ref 0 in       (* DROPALL invalidates every slot at once *)
      let count s = try Hashtbl.find ver s with Not_found -> 0 in
      let version s = (!epoch * 10_000_000) + count s in
      let bump s = Hashtbl.replace ver s (count s + 1) in
      let pending : pend list ref = ref [] in
      let gcall = param c "gcall" = Some "1" in   (* a collection before every operation *)
      let gcs = ref 0 in         (* garbage collections so far: intermediate nodes of an earlier operation may be gone *)
      let failed = ref false in
      let counter = ref 0 in
      let fail step kind tag msg =
        stat "c02z_bad" 1;
        if Sys.getenv_opt "DD_DEBUG" <> None then Printf.eprintf "[%s step %d] %s %s: %s\n" (case_id c) step tag kind msg;
        if not !failed then (
          failed := true;
          verdict_bad c step kind (Printf.sprintf "prop=%s %s" tag msg))
      in

      let resolve (_step : int) (ps : psnap) =
        let n = Array.length ps.l2v in
        let s = ps.snap in
        let fuel = nat (n + 1) in
        let htab : (int, Model.edge) Hashtbl.t = Hashtbl.create (2 * List.length ps.handles + 1) in
        List.iter (fun (sl, e) -> Hashtbl.replace htab sl e) ps.handles;
        let edge_of sl = Hashtbl.find_opt htab (slot_of sl) in
        let hyp_ok = lazy (Model.zbdd_ok_b s && Model.zchain_ok_b s) in
        let cur_grow = ref false in
        (* compare a model result with the real result edge [d]; [grow] = the model may add nodes
           before the operation itself (cube construction) *)
        let compare_result ?(grow = false) tag pstep what res (d : Model.edge) =
          let grow = grow || !cur_grow in
          match res with
          | None -> fail pstep "corr" tag (Printf.sprintf "%s: the model is undefined on a snapshot that satisfies the hypotheses" what)
          | Some (s', r) ->
            let r = untagged r in
            if Model.edge_eqb r d && (grow || nodes_of s' = nodes_of s) then stat "c02z_same_edge" 1
            else (
              let ps' = { ps with snap = s' } in
              match value_table ps' r, value_table ps d with
              | Some tm, Some ti when tm <> ti ->
                fail pstep "prop" tag
                  (Printf.sprintf "%s: result table %s, the verified model computes %s" what (show_vt ti) (show_vt tm))
              | Some _, Some _ ->
                if not (Model.edge_eqb r d) then
                  fail pstep "corr" tag (Printf.sprintf "%s: implementation returned %s, model %s (same function)" what (show_edge d) (show_edge r))
                else fail pstep "corr" tag (Printf.sprintf "%s: the model needs a node that the implementation did not create" what)
              | _ -> fail pstep "corr" tag (Printf.sprintf "%s: interpretation of the result undefined" what))
        in
        let strip x = Option.map (fun ((s', _), r) -> (s', r)) x in
        (* the cube of the harness: acc = t; for v = n-1 downto 0: lit(v).and(acc) *)
        let cube gt cget cadd cc pos neg =
          let st = ref (match Model.zconst s true with Some t -> Some ((s, cc), t) | None -> None) in
          for v = n - 1 downto 0 do
            let lit = if (pos lsr v) land 1 = 1 then Some false else if (neg lsr v) land 1 = 1 then Some true else None in
            match !st, lit with
            | Some ((s1, c1), acc), Some negd ->
              let x =
                if negd then Model.znot_var gt cget cadd fuel s1 c1 (nat v)
                else (match Model.zvar s1 (nat v) with Some (s2, r) -> Some ((s2, c1), r) | None -> None) in
              (match x with
               | Some ((s2, c2), xr) -> st := Model.zapply gt cget cadd fuel s2 c2 Model.ZIntsec xr acc
               | None -> st := None)
            | _ -> ()
          done;
          !st in
        let expected_lits pos neg =
          List.sort compare
            (List.concat (List.init n (fun v ->
                 if (pos lsr v) land 1 = 1 then [ (ps.v2l.(v), true) ]
                 else if (neg lsr v) land 1 = 1 then [ (ps.v2l.(v), false) ]
                 else []))) in
        List.iter
          (fun p ->
            let fresh = List.for_all (fun (sl, v) -> version sl = v) p.pver in
            if not fresh then stat "c02z_unresolved" 1
            else if not (Lazy.force hyp_ok) then
              fail p.pstep "corr" "C02" "the snapshot does not satisfy the hypotheses of the ZBDD theorems (zbdd_ok_b, zchain_ok_b)"
            else (
              let what = String.concat " " p.ptoks in
              cur_grow := p.pgc <> !gcs;
              incr counter;
              let second = !counter land 7 = 0 in
              match p.ptoks with
              | [ ("NOT" | "NOTO"); dst; a ] ->
                (match edge_of a, edge_of dst with
                 | Some ea, Some d ->
                   stat "c02z_model_not" 1;
                   compare_result "C02" p.pstep what (strip (Model.zapply_not gt_fwd Model.zac_get Model.zac_add fuel s [] ea.Model.eref)) d;
                   if second then (
                     stat "c02z_model_not_nocache_rev" 1;
                     compare_result "C02" p.pstep (what ^ " (no cache, reverse operand order)")
                       (strip (Model.zapply_not gt_rev Model.znc_get Model.znc_add fuel s () ea.Model.eref)) d)
                 | _ -> stat "c02z_unresolved" 1)
              | [ op; dst; a; b ] when bop_of op <> None ->
                (match edge_of a, edge_of b, edge_of dst, bop_of op with
                 | Some ea, Some eb, Some d, Some o ->
                   stat "c02z_model_bin" 1;
                   compare_result "C02" p.pstep what
                     (strip (Model.zapply_op gt_fwd Model.zac_get Model.zac_add fuel s [] o ea.Model.eref eb.Model.eref)) d;
                   if second then (
                     stat "c02z_model_bin_nocache_rev" 1;
                     compare_result "C02" p.pstep (what ^ " (no cache, reverse operand order)")
                       (strip (Model.zapply_op gt_rev Model.znc_get Model.znc_add fuel s () o ea.Model.eref eb.Model.eref)) d)
                 | _ -> stat "c02z_unresolved" 1)
              | [ "ITE"; dst; a; b; cc ] ->
                (match edge_of a, edge_of b, edge_of cc, edge_of dst with
                 | Some ea, Some eb, Some ec, Some d ->
                   stat "c02z_model_ite" 1;
                   compare_result "C02" p.pstep what
                     (strip (Model.zapply_ite gt_fwd Model.zac_get Model.zac_add fuel s [] ea.Model.eref eb.Model.eref ec.Model.eref)) d;
                   if second then (
                     stat "c02z_model_ite_nocache_rev" 1;
                     compare_result "C02" p.pstep (what ^ " (no cache, reverse operand order)")
                       (strip (Model.zapply_ite gt_rev Model.znc_get Model.znc_add fuel s () ea.Model.eref eb.Model.eref ec.Model.eref)) d)
                 | _ -> stat "c02z_unresolved" 1)
              | [ (("VAR" | "NVAR") as o); dst; v ] ->
                (match edge_of dst with
                 | Some d ->
                   stat "c02z_model_var" 1;
                   let v = int_of_string v in
                   if v < n then
                     compare_result "C02" p.pstep what
                       (if o = "VAR" then Model.zvar s (nat v)
                        else strip (Model.znot_var gt_fwd Model.zac_get Model.zac_add fuel s [] (nat v))) d
                 | None -> stat "c02z_unresolved" 1)
              | [ "CONST"; dst; b ] ->
                (match edge_of dst with
                 | Some d ->
                   stat "c02z_model_const" 1;
                   compare_result "C02" p.pstep what (Option.map (fun r -> (s, r)) (Model.zconst s (b = "1"))) d
                 | None -> stat "c02z_unresolved" 1)
              | [ "EVAL"; a ] ->
                (match edge_of a, split_ws p.pres with
                 | Some ea, ("tt" :: nn :: hex :: _) when int_of_string nn = n ->
                   stat "c02z_model_eval" 1;
                   let tab = Z.of_string_base 16 hex in
                   (try
                      for idx = 0 to (1 lsl n) - 1 do
                        let args = List.init n (fun v -> (nat v, (idx lsr v) land 1 = 1)) in
                        match Model.zeval_edge s ea.Model.eref args with
                        | None -> fail p.pstep "corr" "C02" (what ^ ": the model's eval is undefined (ones counter underflow / unknown variable)"); raise Exit
                        | Some b ->
                          if b <> Z.testbit tab idx then (
                            (* which of the two agrees with the interpretation? *)
                            let interp = match Hashtbl.find_opt tts (slot_of a) with Some t -> t.(idx) = 1 | None -> b in
                            fail p.pstep (if interp = b then "prop" else "corr") "C02"
                              (Printf.sprintf "%s: eval under assignment %d is %b, the verified model's eval walk gives %b" what idx (Z.testbit tab idx) b);
                            raise Exit)
                      done
                    with Exit -> ())
                 | _ -> stat "c02z_unresolved" 1)
              | [ "COF"; dt; de; a ] ->
                (match edge_of a with
                 | Some ea ->
                   stat "c02z_model_cof" 1;
                   (match Model.zcofactors s ea.Model.eref with
                    | None ->
                      if not (starts_with p.pres "none") then
                        fail p.pstep "prop" "C02" (what ^ ": cofactors returned Some, the model None (the edge points to a terminal)")
                    | Some (t, x) ->
                      if starts_with p.pres "none" then
                        fail p.pstep "prop" "C02" (what ^ ": cofactors returned None for an inner node")
                      else
                        (match edge_of dt, edge_of de with
                         | Some gt, Some ge ->
                           if not (Model.edge_eqb gt (untagged t) && Model.edge_eqb ge (untagged x)) then
                             fail p.pstep "prop" "C02"
                               (Printf.sprintf "%s: cofactors are (%s, %s), the model's (%s, %s)" what
                                  (show_edge gt) (show_edge ge) (show_edge (untagged t)) (show_edge (untagged x)))
                         | _ -> stat "c02z_unresolved" 1))
                 | None -> stat "c02z_unresolved" 1)
              | [ "RESTRICT"; dst; a; pos; neg ] ->
                (match edge_of a, edge_of dst with
                 | Some ea, Some d ->
                   stat "c04z_model_restrict" 1;
                   let pos = int_of_string pos and neg = int_of_string neg in
                   let run gt cget cadd cc tagx =
                     match cube gt cget cadd cc pos neg with
                     | None -> fail p.pstep "corr" "C04" (what ^ tagx ^ ": the model cannot build the cube")
                     | Some ((s1, c1), vars) ->
                       if nodes_of s1 <> nodes_of s then stat "c04z_cube_new_nodes" 1;
                       let fuel1 = nat (n + 1) in
                       (match Model.zcube_lits fuel1 s1 vars (nat 0) with
                        | None -> fail p.pstep "corr" "C04" (what ^ tagx ^ ": zcube_lits does not recognise the cube (hypothesis of C04_zbdd_restrict)")
                        | Some lits ->
                          let got = List.map (fun (lv, b) -> (int_of_nat lv, b)) lits in
                          if got <> expected_lits pos neg then
                            fail p.pstep "corr" "C04"
                              (Printf.sprintf "%s%s: the cube reads as [%s], expected [%s]" what tagx (show_lits lits)
                                 (String.concat "," (List.map (fun (l, b) -> Printf.sprintf "%d%s" l (if b then "+" else "-")) (expected_lits pos neg))))
                          else
                            compare_result ~grow:true "C04" p.pstep (what ^ tagx)
                              (strip (Model.zrestrict_edge cget cadd fuel1 s1 c1 ea.Model.eref vars)) d)
                   in
                   run gt_fwd Model.zac_get Model.zac_add [] "";
                   if second then (
                     stat "c04z_model_restrict_nocache_rev" 1;
                     run gt_rev Model.znc_get Model.znc_add () " (no cache, reverse operand order)")
                 | _ -> stat "c02z_unresolved" 1)
              | _ -> ()))
          (List.rev !pending);
        pending := []
      in

      let process_snapshot (step : int) (body : string) =
        stat "c02z_snapshots" 1;
        let ps = parse_snapshot kname body in
        Hashtbl.reset tts;
        List.iter
          (fun (slot, e) ->
            match value_table ps e with
            | Some t -> Hashtbl.replace tts slot t
            | None -> fail step "corr" "C02" (Printf.sprintf "handle h%d: interpretation undefined (dangling edge)" slot))
          ps.handles;
        resolve step ps
      in

      List.iteri
        (fun i l ->
          if l = "HANG" || starts_with l "PANIC" || starts_with l "CRASH" then ()   (* reported by the DD driver *)
          else
            let ops, res = split_arrow l in
            let toks = split_ws ops in
            if gcall && toks <> [ "SNAP" ] then incr gcs;
            if starts_with res "err" then (
              (* the destination keeps what it had; operations the harness skipped carry no obligation *)
              stat "c02z_skipped_ops" 1)
            else
              match toks with
              | [ "SNAP" ] -> (try process_snapshot i res with Failure m -> fail i "corr" "C02" ("driver: " ^ m))
              | [ "EVAL"; a ] ->
                pending := { pstep = i; ptoks = toks; pres = res; pver = [ (slot_of a, version (slot_of a)) ]; pgc = !gcs } :: !pending
              | [ "COF"; dt; de; a ] ->
                (* the source is captured before the destinations are overwritten: a destination that
                   aliases the source makes the operation unresolvable *)
                let va = (slot_of a, version (slot_of a)) in
                if not (starts_with res "none") then (bump (slot_of dt); bump (slot_of de));
                let fresh_a = version (slot_of a) = snd va in
                if fresh_a then
                  pending := { pstep = i; ptoks = toks; pres = res;
                               pver = (if starts_with res "none" then [ va ]
                                       else [ va; (slot_of dt, version (slot_of dt)); (slot_of de, version (slot_of de)) ]); pgc = !gcs } :: !pending
                else stat "c02z_unresolved" 1
              | [ ("NOT" | "NOTO" | "VAR" | "NVAR" | "CONST" | "ITE" | "AND" | "OR" | "XOR" | "EQUIV" | "NAND" | "NOR" | "IMP" | "IMPS") ; _; _ ]
              | [ ("NOT" | "NOTO" | "VAR" | "NVAR" | "CONST" | "ITE" | "AND" | "OR" | "XOR" | "EQUIV" | "NAND" | "NOR" | "IMP" | "IMPS") ; _; _; _ ]
              | [ ("NOT" | "NOTO" | "VAR" | "NVAR" | "CONST" | "ITE" | "AND" | "OR" | "XOR" | "EQUIV" | "NAND" | "NOR" | "IMP" | "IMPS" | "RESTRICT") ; _; _; _; _ ] ->
                let dst = List.nth toks 1 in
                let srcs = List.filter (fun t -> starts_with t "h") (List.tl (List.tl toks)) in
                (* operand versions before the destination is overwritten *)
                let vs = List.map (fun a -> (slot_of a, version (slot_of a))) srcs in
                bump (slot_of dst);
                let aliased = List.exists (fun (sl, v) -> version sl <> v) vs in
                if aliased then stat "c02z_unresolved" 1
                else
                  pending := { pstep = i; ptoks = toks; pres = res;
                               pver = (slot_of dst, version (slot_of dst)) :: vs; pgc = !gcs } :: !pending
              | ("VARS" | "ORDER" | "ORDERSEQ") :: _ ->
                (* the level structure changes: what was computed before is not replayed on a later snapshot *)
                if !pending <> [] then (stat "c02z_dropped_at_reorder" (List.length !pending); pending := [])
              | ("GC" | "PGC") :: _ -> incr gcs
              | ("PAR" | "ENDPAR" | "EV" | "EVSTAT") :: _ -> ()
              (* operations that only read their handles *)
              | ("EQ" | "NC" | "SAT" | "SATVALID" | "PICK" | "PICKUNI" | "MKSUBST" | "DROPSUBST" | "FILL") :: _ -> ()
              | [ "DROPALL" ] -> incr epoch
              | [ ("DROP" | "DROPT"); a ] -> bump (slot_of a)
              | ("AEX" | "AFA" | "AUQ") :: _ :: dst :: _ when starts_with dst "h" -> bump (slot_of dst)
              | _ :: dst :: _ when starts_with dst "h" -> bump (slot_of dst)
              | _ -> ())
        c.lines;
      stat "c02z_cases" 1;
      if not !failed then verdict_ok c
      end);
  dump_stats ()
