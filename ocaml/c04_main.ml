(* C04 driver for the plain BDD and the complement-edge (BCDD) kind: replays, on
   every lifted snapshot of the trace of harness/src/bin/h_dd.rs, the
   quantification / restriction / apply-and-quantify / substitution operations
   recorded since the previous snapshot on the extracted Gallina models of
   coq/DD/Quant.v (bdd) and coq/DD/QuantBcdd.v (bcdd) - the models the theorems
   C04_* / C04_bcdd_* of coq/Props/C04.v are about - and compares with what the
   real code returned.

   EXISTS/FORALL/UNIQUE, AEX/AFA/AUQ, RESTRICT, SUBST
           The variable set / literal cube is built on the snapshot with the
           extracted mk_var + and (as the harness builds it with
           var/not_var/and), then the extracted entry point ([c]quant_edge,
           [c]apply_quant_edge, [c]restrict_edge, [c]substitute_edge) is run
           with the operands' edges.  The snapshot already contains the real
           result; the table is canonical (C01), so the model - whose result
           denotes the spec function by the C04 theorems - must return exactly
           the edge of the real result.
           (prop)  the value table of the model's result differs from the value
                   table of the real result;
           (corr)  same function but another edge, or the model is undefined
                   although the hypotheses hold.
   The model's table and cache are threaded through all operations of one
   snapshot window (so cache hits, set_pop'ed keys and the reuse of one
   substitution id / the alternation of several ids are exercised as the
   theorems state them: any cache satisfying the invariant); the cache is a
   hash table behind the abstract cget/cadd interface (it only ever serves what
   was added).  Every MKSUBST gets a fresh model id (new_substitution_id).
   Every 8th operation is replayed a second time from the plain snapshot
   without any cache and with the reverse operand order: same edge required.
   The hypothesis of the theorems (bdd_ok_b / bcok_b) is evaluated on every
   snapshot; a failure is a corr verdict.  Cases of other kinds are skipped. *)
open Conv
open Dd_types

type pend = { pstep : int; ptoks : string list; pver : (int * int) list;
              psub : (int * (int * int) list) option }     (* model id, [(var, slot)] *)

let bop_of = function
  | "AND" -> Some Model.OAnd | "OR" -> Some Model.OOr | "XOR" -> Some Model.OXor
  | "EQUIV" -> Some Model.OEquiv | "NAND" -> Some Model.ONand | "NOR" -> Some Model.ONor
  | "IMP" -> Some Model.OImp | "IMPS" -> Some Model.OImpStrict | _ -> None

(* operand orders standing for the address order of the code, and their reverses *)
let rkey (r : Model.ref) : int * Z.t =
  match r with Model.RT t -> (0, z_of_n t) | Model.RN p -> (1, z_of_pos p)
let ekey (e : Model.edge) = (rkey e.Model.eref, e.Model.etag)
let gt_fwd a b = compare (rkey a) (rkey b) > 0
let gt_rev a b = compare (rkey b) (rkey a) > 0
let lt_fwd a b = compare (ekey a) (ekey b) < 0
let lt_rev a b = compare (ekey b) (ekey a) < 0

(* the apply cache behind the abstract interface: a hash table *)
let hget c k a = Hashtbl.find_opt c (k, a)
let hadd c k a r = Hashtbl.replace c (k, a) r; c

let untagged (r : Model.ref) : Model.edge = { Model.eref = r; Model.etag = false }

(* what a kind provides: every run returns the result table and the result edge;
   [cached = true] threads the engine's table and cache, [false] starts from the
   given snapshot with no cache and the reverse operand order *)
type engine = {
  hyp : Model.snap -> bool;
  reset : Model.snap -> unit;
  quant : bool -> Model.quantifier -> Model.edge -> int -> (Model.snap * Model.edge) option;
  aquant : bool -> Model.quantifier -> Model.bop -> Model.edge -> Model.edge -> int -> (Model.snap * Model.edge) option;
  restr : bool -> Model.edge -> int -> int -> (Model.snap * Model.edge) option;
  subst : bool -> Model.edge -> (int * Model.edge) list -> int -> (Model.snap * Model.edge) option;
}

let bdd_engine () : engine =
  let snap0 = ref None and cur = ref None in
  let cache = ref (Hashtbl.create 1024) in
  let n_of s = int_of_nat (Model.nlevels s) in
  let cube gt cget cadd (s : Model.snap) cc pos neg =
    let n = n_of s in
    let fuel = nat (n + 1) in
    let st = ref (match Model.mk_const s true with Some t -> Some (s, cc, t) | None -> None) in
    for v = n - 1 downto 0 do
      let lit = if (pos lsr v) land 1 = 1 then Some false else if (neg lsr v) land 1 = 1 then Some true else None in
      match !st, lit with
      | Some (s1, c1, acc), Some negd ->
        (match Model.mk_var s1 (nat v) negd with
         | Some (s2, x) ->
           (match Model.apply_bin gt cget cadd fuel s2 c1 Model.OAnd x acc with
            | Some ((s3, c3), r) -> st := Some (s3, c3, r)
            | None -> st := None)
         | None -> st := None)
      | _ -> ()
    done;
    !st in
  let go cached (f : (Model.ref -> Model.ref -> bool) -> _ -> _ -> Model.snap -> _ -> ((Model.snap * _) * Model.ref) option)
         (f0 : (Model.ref -> Model.ref -> bool) -> _ -> _ -> Model.snap -> unit -> ((Model.snap * unit) * Model.ref) option) =
    if cached then
      (match !cur with
       | None -> None
       | Some s ->
         (match f gt_fwd hget hadd s !cache with
          | Some ((s', _), r) -> cur := Some s'; Some (s', untagged r)
          | None -> None))
    else
      (match !snap0 with
       | None -> None
       | Some s -> (match f0 gt_rev Model.nc_get Model.nc_add s () with Some ((s', _), r) -> Some (s', untagged r) | None -> None)) in
  { hyp = Model.bdd_ok_b;
    reset = (fun s -> snap0 := Some s; cur := Some s; cache := Hashtbl.create 1024);
    quant = (fun cached q f mask ->
        let body gt cget cadd s cc = match cube gt cget cadd s cc mask 0 with
          | Some (s1, c1, vars) -> Model.quant_edge gt cget cadd s1 c1 q f.Model.eref vars | None -> None in
        go cached body body);
    aquant = (fun cached q o f g mask ->
        let body gt cget cadd s cc = match cube gt cget cadd s cc mask 0 with
          | Some (s1, c1, vars) -> Model.apply_quant_edge gt cget cadd s1 c1 q o f.Model.eref g.Model.eref vars | None -> None in
        go cached body body);
    restr = (fun cached f pos neg ->
        let body gt cget cadd s cc = match cube gt cget cadd s cc pos neg with
          | Some (s1, c1, vars) -> Model.restrict_edge cget cadd s1 c1 f.Model.eref vars | None -> None in
        go cached body body);
    subst = (fun cached f pairs id ->
        let prs = List.map (fun (v, e) -> (nat v, e.Model.eref)) pairs in
        let body gt cget cadd s cc = Model.substitute_edge gt cget cadd s cc f.Model.eref prs (n_of_int id) in
        go cached body body) }

let bcdd_engine () : engine =
  let snap0 = ref None and cur = ref None in
  let cache = ref (Hashtbl.create 1024) in
  let n_of s = int_of_nat (Model.nlevels s) in
  let cube lt cget cadd (s : Model.snap) cc pos neg =
    let n = n_of s in
    let fuel = nat (n + 1) in
    let st = ref (match Model.cmk_const s true with Some t -> Some (s, cc, t) | None -> None) in
    for v = n - 1 downto 0 do
      let lit = if (pos lsr v) land 1 = 1 then Some false else if (neg lsr v) land 1 = 1 then Some true else None in
      match !st, lit with
      | Some (s1, c1, acc), Some negd ->
        (match Model.cmk_var s1 (nat v) negd with
         | Some (s2, x) ->
           (match Model.capply_op lt cget cadd fuel s2 c1 Model.OAnd x acc with
            | Some ((s3, c3), r) -> st := Some (s3, c3, r)
            | None -> st := None)
         | None -> st := None)
      | _ -> ()
    done;
    !st in
  let go cached (f : (Model.edge -> Model.edge -> bool) -> _ -> _ -> Model.snap -> _ -> ((Model.snap * _) * Model.edge) option)
         (f0 : (Model.edge -> Model.edge -> bool) -> _ -> _ -> Model.snap -> unit -> ((Model.snap * unit) * Model.edge) option) =
    if cached then
      (match !cur with
       | None -> None
       | Some s ->
         (match f lt_fwd hget hadd s !cache with
          | Some ((s', _), r) -> cur := Some s'; Some (s', r)
          | None -> None))
    else
      (match !snap0 with
       | None -> None
       | Some s -> (match f0 lt_rev Model.enc_get Model.enc_add s () with Some ((s', _), r) -> Some (s', r) | None -> None)) in
  { hyp = Model.bcok_b;
    reset = (fun s -> snap0 := Some s; cur := Some s; cache := Hashtbl.create 1024);
    quant = (fun cached q f mask ->
        let body lt cget cadd s cc = match cube lt cget cadd s cc mask 0 with
          | Some (s1, c1, vars) -> Model.cquant_edge lt cget cadd s1 c1 q f vars | None -> None in
        go cached body body);
    aquant = (fun cached q o f g mask ->
        let body lt cget cadd s cc = match cube lt cget cadd s cc mask 0 with
          | Some (s1, c1, vars) -> Model.capply_quant_edge lt cget cadd s1 c1 q o f g vars | None -> None in
        go cached body body);
    restr = (fun cached f pos neg ->
        let body lt cget cadd s cc = match cube lt cget cadd s cc pos neg with
          | Some (s1, c1, vars) -> Model.crestrict_edge cget cadd s1 c1 f vars | None -> None in
        go cached body body);
    subst = (fun cached f pairs id ->
        let prs = List.map (fun (v, e) -> (nat v, e)) pairs in
        let body lt cget cadd s cc = Model.csubstitute_edge lt cget cadd s cc f prs (n_of_int id) in
        go cached body body) }

let () =
  iter_cases stdin (fun c ->
      let kname = match param c "kind" with Some k -> k | None -> "bdd" in
      if kname <> "bdd" && kname <> "bcdd" then (stat "c04m_skipped_cases" 1; verdict_ok c)
      else begin
      let eng = if kname = "bdd" then bdd_engine () else bcdd_engine () in
      let tag = if kname = "bdd" then "c04m_bdd_" else "c04m_bcdd_" in
      let ver : (int, int) Hashtbl.t = Hashtbl.create 64 in
      let epoch = ref 0 in
      let count s = try Hashtbl.find ver s with Not_found -> 0 in
      let version s = (!epoch * 10_000_000) + count s in
      let bump s = Hashtbl.replace ver s (count s + 1) in
      let substs : (int, int * (int * int * int) list) Hashtbl.t = Hashtbl.create 8 in  (* sid -> model id, [(var, slot, version)] *)
      let next_id = ref 0 in
      let pending : pend list ref = ref [] in
      let failed = ref false in
      let counter = ref 0 in
      let fail step kind msg =
        stat "c04m_bad" 1;
        if Sys.getenv_opt "DD_DEBUG" <> None then Printf.eprintf "[%s step %d] C04 %s: %s\n" (case_id c) step kind msg;
        if not !failed then (
          failed := true;
          verdict_bad c step kind (Printf.sprintf "prop=C04 %s" msg))
      in

      let resolve (ps : psnap) =
        let htab : (int, Model.edge) Hashtbl.t = Hashtbl.create (2 * List.length ps.handles + 1) in
        List.iter (fun (sl, e) -> Hashtbl.replace htab sl e) ps.handles;
        let edge_of sl = Hashtbl.find_opt htab sl in
        let hyp_ok = lazy (eng.hyp ps.snap) in
        eng.reset ps.snap;
        let compare_result pstep what res (d : Model.edge) =
          match res with
          | None -> fail pstep "corr" (Printf.sprintf "%s: the model is undefined on a snapshot that satisfies the hypotheses" what)
          | Some (s', r) ->
            if Model.edge_eqb r d then stat (tag ^ "same_edge") 1
            else (
              match value_table { ps with snap = s' } r, value_table ps d with
              | Some tm, Some ti when tm <> ti ->
                fail pstep "prop"
                  (Printf.sprintf "%s: result table %s, the verified model computes %s" what (show_vt ti) (show_vt tm))
              | Some _, Some _ ->
                fail pstep "corr" (Printf.sprintf "%s: implementation returned %s, model %s (same function)" what (show_edge d) (show_edge r))
              | _ -> fail pstep "corr" (Printf.sprintf "%s: interpretation of the result undefined" what))
        in
        let run pstep what (d : Model.edge) (f : bool -> (Model.snap * Model.edge) option) =
          incr counter;
          compare_result pstep what (f true) d;
          if !counter land 7 = 0 then (
            stat (tag ^ "nocache_rev") 1;
            compare_result pstep (what ^ " (no cache, reverse operand order)") (f false) d)
        in
        List.iter
          (fun p ->
            let fresh = List.for_all (fun (sl, v) -> version sl = v) p.pver in
            if not fresh then stat "c04m_unresolved" 1
            else if not (Lazy.force hyp_ok) then
              fail p.pstep "corr" "the snapshot does not satisfy the hypothesis of the C04 theorems (bdd_ok_b / bcok_b)"
            else (
              let what = String.concat " " p.ptoks in
              match p.ptoks with
              | [ (("EXISTS" | "FORALL" | "UNIQUE") as q); dst; a; mask ] ->
                (match edge_of (slot_of a), edge_of (slot_of dst) with
                 | Some fa, Some d ->
                   stat (tag ^ "quant") 1;
                   let q = match q with "EXISTS" -> Model.QExists | "FORALL" -> Model.QForall | _ -> Model.QUnique in
                   let mask = int_of_string mask in
                   run p.pstep what d (fun cached -> eng.quant cached q fa mask)
                 | _ -> stat "c04m_unresolved" 1)
              | [ (("AEX" | "AFA" | "AUQ") as q); op; dst; a; b; mask ] ->
                (match edge_of (slot_of a), edge_of (slot_of b), edge_of (slot_of dst), bop_of op with
                 | Some fa, Some fb, Some d, Some o ->
                   stat (tag ^ "apply_quant") 1;
                   let q = match q with "AEX" -> Model.QExists | "AFA" -> Model.QForall | _ -> Model.QUnique in
                   let mask = int_of_string mask in
                   run p.pstep what d (fun cached -> eng.aquant cached q o fa fb mask)
                 | _ -> stat "c04m_unresolved" 1)
              | [ "RESTRICT"; dst; a; pos; neg ] ->
                (match edge_of (slot_of a), edge_of (slot_of dst) with
                 | Some fa, Some d ->
                   stat (tag ^ "restrict") 1;
                   let pos = int_of_string pos and neg = int_of_string neg in
                   run p.pstep what d (fun cached -> eng.restr cached fa pos neg)
                 | _ -> stat "c04m_unresolved" 1)
              | [ "SUBST"; dst; a; _ ] ->
                (match edge_of (slot_of a), edge_of (slot_of dst), p.psub with
                 | Some fa, Some d, Some (id, pairs) ->
                   let prs = List.map (fun (v, sl) -> (v, edge_of sl)) pairs in
                   if List.exists (fun (_, r) -> r = None) prs then stat "c04m_unresolved" 1
                   else (
                     stat (tag ^ "subst") 1;
                     let prs = List.map (fun (v, r) -> (v, Option.get r)) prs in
                     run p.pstep what d (fun cached -> eng.subst cached fa prs id))
                 | _ -> stat "c04m_unresolved" 1)
              | _ -> ()))
          (List.rev !pending);
        pending := []
      in

      List.iteri
        (fun i l ->
          if l = "HANG" || starts_with l "PANIC" || starts_with l "CRASH" then ()   (* reported by the DD driver *)
          else
            let ops, res = split_arrow l in
            let toks = split_ws ops in
            if starts_with res "err" then stat "c04m_skipped_ops" 1
            else
              match toks with
              | [ "SNAP" ] ->
                stat "c04m_snapshots" 1;
                (try resolve (parse_snapshot kname res) with Failure m -> fail i "corr" ("driver: " ^ m))
              | "MKSUBST" :: sid :: pairs ->
                let prs = List.filter_map (fun p -> match String.split_on_char '=' p with
                    | [ v; h ] -> Some (int_of_string v, slot_of h, version (slot_of h)) | _ -> None) pairs in
                incr next_id;
                Hashtbl.replace substs (int_of_string sid) (!next_id, prs)
              | [ "DROPSUBST"; sid ] -> Hashtbl.remove substs (int_of_string sid)
              | [ ("EXISTS" | "FORALL" | "UNIQUE" | "SUBST"); dst; a; _ ]
              | [ "RESTRICT"; dst; a; _; _ ]
              | [ ("AEX" | "AFA" | "AUQ"); _; dst; a; _; _ ] ->
                let srcs = a :: (match toks with [ _; _; _; _; b; _ ] -> [ b ] | _ -> []) in
                let vs = List.map (fun x -> (slot_of x, version (slot_of x))) srcs in
                let sub = match toks with
                  | [ "SUBST"; _; _; sid ] -> Hashtbl.find_opt substs (int_of_string sid)
                  | _ -> None in
                (* the replacement functions are those the slots held at MKSUBST time *)
                let sub_ok = match sub with
                  | Some (_, prs) -> List.for_all (fun (_, sl, v) -> version sl = v) prs
                  | None -> List.hd toks <> "SUBST" in
                let subv = match sub with Some (_, prs) -> List.map (fun (_, sl, v) -> (sl, v)) prs | None -> [] in
                bump (slot_of dst);
                let aliased = List.exists (fun (sl, v) -> version sl <> v) (vs @ subv) in
                if aliased || not sub_ok then stat "c04m_unresolved" 1
                else
                  pending := { pstep = i; ptoks = toks;
                               pver = ((slot_of dst, version (slot_of dst)) :: vs) @ subv;
                               psub = (match sub with Some (id, prs) -> Some (id, List.map (fun (v, sl, _) -> (v, sl)) prs) | None -> None) }
                             :: !pending
              | ("VARS" | "ORDER" | "ORDERSEQ" | "GC" | "PAR" | "ENDPAR" | "EV" | "EVSTAT" | "PGC" | "LEVELDOWN") :: _ -> ()
              | ("EQ" | "NC" | "SAT" | "SATVALID" | "PICK" | "PICKUNI" | "FILL" | "EVAL") :: _ -> ()
              | [ "DROPALL" ] -> incr epoch
              | [ ("DROP" | "DROPT"); a ] -> bump (slot_of a)
              | [ "COF"; dt; de; _ ] -> if not (starts_with res "none") then (bump (slot_of dt); bump (slot_of de))
              | _ :: dst :: _ when starts_with dst "h" -> bump (slot_of dst)
              | _ -> ())
        c.lines;
      stat "c04m_cases" 1;
      if not !failed then verdict_ok c
      end);
  dump_stats ()
