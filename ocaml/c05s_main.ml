(* C05s driver: replay of every explicit `Manager::gc` of a history (Boolean kinds bdd / bcdd / zbdd) on the
   extracted collector ConcGc.collect (coq/Mgr/ConcGc.v: levels top-down, per level every entry whose count
   is 0 when it is visited, children released; the model the theorems C05_sm_collect_* are about).

   For a `GC` operation framed by two snapshots (histories carry a snapshot after every operation):
   the PRE snapshot is lifted by the extracted [of_snap] (coq/Mgr/ConcGcCount.v) to a state of the interleaving model (nodes with the reported counts; owners =
   the harness' handles as tokens of thread 0 and, for ZBDDs, the manager's own edges to the nodes of its
   tautology chain as tokens of a pseudo-thread 1); the hypothesis of the theorems (cinv_b = CInv:
   keys distinct, nodes well-formed and unique, counts = owners + parents) is evaluated on it; then
     - the ids stored in the POST snapshot = the ids of collect(pre) (prop: a node that no handle reaches
       survived / a node reachable from a handle was freed), with the same level, children and COUNT
       (the counts after the releases of the freed parents);
     - gc()'s return value = |pre| - |collect(pre)| when exactly one collection happened between the two
       snapshots (gc_count), <= otherwise (the background collector of a small manager ran first);
     - the handles are unchanged;
     - (tables up to 60 nodes) reach_own_b on the pre state = "survives", node by node
       (C05_sm_collect_exact + C05_sm_reach_checker), and collect is idempotent on its result. *)
open Conv
open Dd_types

let () = ignore (Array.length Sys.argv)

let () =
  iter_cases stdin (fun c ->
      let kname = match param c "kind" with Some k -> k | None -> "bdd" in
      if not (List.mem kname [ "bdd"; "bcdd"; "zbdd" ]) then (stat "c05s_skipped_cases" 1; verdict_ok c)
      else begin
        let failed = ref false in
        let fail step kind msg =
          stat "c05s_bad" 1;
          if Sys.getenv_opt "DD_DEBUG" <> None then Printf.eprintf "[%s step %d] C05 %s: %s\n" (case_id c) step kind msg;
          if not !failed then (
            failed := true;
            verdict_bad c step kind (Printf.sprintf "prop=C05 %s" msg))
        in
        let since : (int * string list * string) list ref = ref [] in
        let prev : psnap option ref = ref None in
        let id_of p = Z.to_int (Z.pred (z_of_pos p)) in

        let replay_gc (step : int) (pp : psnap) (ps : psnap) (res : string) =
          stat "c05s_gc_ops" 1;
          let n = Array.length pp.l2v in
          let k = pp.snap.Model.s_kind and terms = pp.snap.Model.s_terms and nl = nat n in
          (* the lifting the theorems C05_gc_snap_* are about (coq/Mgr/ConcGcCount.v [of_snap]) *)
          let st = Model.of_snap pp.snap (Zchain.extra_edges kname pp) in
          let cn = st.Model.cn in
          if not (Model.cinv_b k terms nl st) then (
            stat "c05s_hyp_false" 1;
            fail step "corr" "the snapshot before gc() does not satisfy the hypothesis of the C05_sm_collect theorems (cinv_b: well-formed unique nodes, count = handles + parents)")
          else begin
            let st' = Model.collect k terms nl st in
            let post_m : (int, Model.cnode) Hashtbl.t = Hashtbl.create 256 in
            List.iter (fun (p, nd) -> Hashtbl.replace post_m (id_of p) nd) st'.Model.cn;
            let post_i : (int, Model.node) Hashtbl.t = Hashtbl.create 256 in
            List.iter (fun (p, nd) -> Hashtbl.replace post_i (id_of p) nd) (Model.PositiveMap.elements ps.snap.Model.s_nodes);
            let pre_n = List.length cn in
            stat "c05s_nodes_before" pre_n;
            stat "c05s_nodes_freed_model" (pre_n - Hashtbl.length post_m);
            let show (lvl : Model.nat) ch = Printf.sprintf "level %d, children %s" (int_of_nat lvl) (String.concat " " (List.map show_edge ch)) in
            Hashtbl.iter
              (fun id (nd : Model.cnode) ->
                match Hashtbl.find_opt post_i id with
                | None ->
                  fail step "prop"
                    (Printf.sprintf "gc() freed node n%d (%s, count %s) although a handle reaches it: the verified collector keeps it" id
                       (show nd.Model.cl nd.Model.cch) (string_of_n nd.Model.crc))
                | Some (ni : Model.node) ->
                  if not (ni.Model.nlevel = nd.Model.cl && Model.edges_eqb ni.Model.nchildren nd.Model.cch) then
                    fail step "prop" (Printf.sprintf "node n%d is (%s) after gc(), it was (%s) before" id (show ni.Model.nlevel ni.Model.nchildren) (show nd.Model.cl nd.Model.cch))
                  else if z_of_n ni.Model.nrc <> z_of_n nd.Model.crc then
                    fail step "prop"
                      (Printf.sprintf "node n%d has reference count %s after gc(); handles + stored parents after the collection of the verified model: %s" id
                         (string_of_n ni.Model.nrc) (string_of_n nd.Model.crc)))
              post_m;
            Hashtbl.iter
              (fun id (ni : Model.node) ->
                if not (Hashtbl.mem post_m id) then
                  if List.exists (fun (p, _) -> id_of p = id) cn then
                    fail step "prop"
                      (Printf.sprintf "node n%d (%s, count %s) survived gc() although no handle reaches it: the verified collector frees it" id
                         (show ni.Model.nlevel ni.Model.nchildren) (string_of_n ni.Model.nrc))
                  else fail step "corr" (Printf.sprintf "node n%d appeared during gc()" id))
              post_i;
            if ps.handles <> pp.handles then fail step "corr" "the handles changed during gc()";
            if ps.gc <= pp.gc then
              fail step "prop" (Printf.sprintf "gc_count did not advance over an explicit gc() (%d before, %d after)" pp.gc ps.gc);
            (* the return value *)
            (match split_ws res with
             | [ "collected"; x ] ->
               let x = int_of_string x and m = int_of_nat (Model.collected k terms nl st) in
               if ps.gc = pp.gc + 1 then (
                 stat "c05s_count_exact" 1;
                 if x <> m then
                   fail step "prop" (Printf.sprintf "gc() returned %d, the verified collector frees %d of the %d stored nodes" x m pre_n))
               else (
                 stat "c05s_count_le" 1;
                 if x > m then fail step "prop" (Printf.sprintf "gc() returned %d, only %d of the %d stored nodes are unreachable" x m pre_n))
             | _ -> ());
            if pre_n <= 60 then (
              stat "c05s_reach_checked" 1;
              List.iter
                (fun (p, _) ->
                  if Model.reach_own_b nl st p <> Hashtbl.mem post_m (id_of p) then
                    fail step "corr" (Printf.sprintf "reach_own_b and collect disagree on node n%d (contradicts C05_sm_collect_exact)" (id_of p)))
                cn;
              let g = List.length (Model.garbage nl st) in
              if g <> int_of_nat (Model.collected k terms nl st) then
                fail step "corr" "collected and |garbage| differ (contradicts C05_sm_collect_count)";
              let st'' = Model.collect k terms nl st' in
              if List.length st''.Model.cn <> List.length st'.Model.cn then
                fail step "corr" "collect is not idempotent (contradicts C05_sm_collect_idem)")
          end
        in

        List.iteri
          (fun i l ->
            if l = "HANG" || starts_with l "PANIC" || starts_with l "CRASH" then ()   (* reported by the DD driver *)
            else
              let ops, res = split_arrow l in
              let toks = split_ws ops in
              match toks with
              | [ "SNAP" ] ->
                (try
                   let ps = parse_snapshot kname res in
                   stat "c05s_snapshots" 1;
                   (match !prev, !since with
                    | Some pp, [ (_, [ "GC" ], r) ] when starts_with r "collected" && Array.length pp.l2v = Array.length ps.l2v ->
                      replay_gc i pp ps r
                    | _ -> ());
                   prev := Some ps;
                   since := []
                 with Failure m -> fail i "corr" ("driver: " ^ m))
              | [] -> ()
              | _ -> since := (i, toks, res) :: !since)
          c.lines;
        stat "c05s_cases" 1;
        if not !failed then verdict_ok c
      end);
  dump_stats ()
