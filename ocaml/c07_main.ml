(* C07 driver: trace validation of the concurrent unique table.

   Reads the trace of harness/src/bin/h_dd.rs built with --cfg oxidd_verif.  Inside a
   parallel block (PAR .. ENDPAR) the hooks of /repo log every get_or_insert (with the level
   mutex held: level, children, returned id, found/new) and every node the collector removes.
   The driver replays that log with the extracted table-level step function [Model.step_tbl]
   of coq/Mgr/Conc.v (the projection of the proved interleaving model [step], theorem
   C07_erase_sim): starting from the snapshot taken directly before the block, every logged
   event must be enabled in the model and return the logged node id, and the snapshot taken
   directly after the block must list exactly the model's table.

   "the implementation's trace is a trace of the model":
     - a get_or_insert that inserts although the shape is stored      -> duplicate node
     - a get_or_insert that finds a node the model does not hold       -> stale table entry
     - children that are not stored / not on a lower level / unreduced -> dangling or ill-formed
     - a collected node that still has a stored parent, or is unknown  -> premature collection
   (reference counts and value tables are audited by the DD driver on the same trace.)

   C07k -- the apply cache's weak references and the collector's cache protocol.  The hooks also
   log, each with the bucket's lock held: every successful cache insertion (EV CA) and every cache
   hit (EV CH) with bucket number, operand and value edges; the start of `pre_gc` (EV CP, number of
   buckets), every bucket `pre_gc` has cleared and keeps locked (EV CL, runs of consecutive
   buckets), the start of the sweep (EV GB), every bucket `post_gc` is about to unlock (EV CU) and
   the end of the collection (EV GE).  They are replayed, in log order and interleaved with the
   table events, by the extracted log-level step [Model.clstep] of coq/Mgr/ConcCache.v (theorems
   C07_cache_log_sim / C07_cache_trace_sim: it accepts the projection of every behaviour of the
   proved interleaving model; C07_cache_clog_inv: whatever it accepts has no dangling weak edge):
     - an insertion or a hit in a bucket between its pre_gc lock and its post_gc unlock
     - a node removed by the collector while not ALL buckets are locked (a bucket skipped by
       pre_gc, the sweep starting early)
     - post_gc unlocking a bucket pre_gc did not lock
     - a hit whose entry names a node that is not stored in the replayed table (dangling weak
       edge), or differs from the entry written last, or in a bucket cleared and not written since
   are violations (kind=prop).

   C07m -- MTBDD (kind mtbdd): terminals are created and collected inside the blocks
   (`DynamicTerminalManager`), but the terminal manager has no hooks: terminal ids (index-based
   manager: ids below 0x2000000) that an event names are taken as stored (the replay of the table
   and cache events only constrains the INNER nodes there).  The tie for the terminal protocol
   (terminal collection only between pre_gc and post_gc, coq/Mgr/ConcTerm.v) is the END-STATE audit:
   every snapshot of an mtbdd case is lifted by the extracted [Model.lift_terms] (listed terminals,
   one counted edge per handle / child edge) and must satisfy the extracted invariant checker
   [Model.tinv_b] (theorem C07_term_lift_inv: pairwise distinct terminal ids and VALUES -- two slots
   with one value break hash consing --, every handle and child edge names a listed terminal);
   values and reference counts are audited by the DD driver on the same trace (sequential
   specification of every result, terminals surviving / missing after gc). *)
open Conv

(* ---- trace parsing (the parts of ocaml/dd_types.ml needed here; that file depends on the
   DD extraction) ---- *)
let nat_cache =
  let a = Array.make 65537 Model.O in
  for i = 1 to 65536 do a.(i) <- Model.S a.(i - 1) done;
  a
let nat i = if i >= 0 && i <= 65536 then nat_cache.(i) else nat_of_int i
let rec pow2_ge n p = if p >= n then p else pow2_ge n (2 * p)
let show_phase = function
  | Model.GIdle -> "idle" | Model.GLock -> "pre_gc" | Model.GSweep -> "sweep" | Model.GUnlock -> "post_gc"
let kind_of = function
  | "bdd" -> Model.KBdd | "bcdd" -> Model.KBcdd | "zbdd" -> Model.KZbdd
  | "mtbdd" -> Model.KMtbdd | "tdd" -> Model.KTdd | k -> failwith ("kind " ^ k)
(* MTBDD / TDD terminal values: interned in order of first appearance (only equality matters) *)
let interned : (string, int) Hashtbl.t = Hashtbl.create 64
let term_code kname (v : string) : int =
  match kname, v with
  | "bdd", "False" -> 0 | "bdd", "True" -> 1
  | "bcdd", _ -> 1
  | "zbdd", "Empty" -> 0 | "zbdd", "Base" -> 1
  | ("mtbdd" | "tdd"), _ ->
    (match Hashtbl.find_opt interned v with
     | Some c -> c
     | None -> let c = Hashtbl.length interned in Hashtbl.add interned v c; c)
  | _, _ -> failwith ("terminal " ^ v)
(* index-based manager, MTBDD: `terminals: 0x2000000` (crates/oxidd/src/mtbdd.rs) *)
let mtbdd_terminal_bound = 0x2000000
let parse_edge (t : string) : Model.edge =
  let n = String.length t in
  let tag = n > 0 && t.[n - 1] = '~' in
  let body = if tag then String.sub t 0 (n - 1) else t in
  let num = String.sub body 1 (String.length body - 1) in
  let r =
    if body.[0] = 'n' then Model.RN (pos_of_z (Z.succ (Z.of_string num)))   (* ids may be 0: shift by one *)
    else Model.RT (n_of_string num) in
  { Model.eref = r; Model.etag = tag }
let show_edge (e : Model.edge) =
  (match e.Model.eref with
   | Model.RN p -> "n" ^ Z.to_string (Z.pred (z_of_pos p))
   | Model.RT t -> "t" ^ string_of_n t)
  ^ if e.Model.etag then "~" else ""
let split_bar (s : string) : string list =
  let res = ref [] and cur = Buffer.create 64 in
  let n = String.length s in
  let i = ref 0 in
  while !i < n do
    if !i + 2 < n && s.[!i] = ' ' && s.[!i + 1] = '|' && s.[!i + 2] = ' ' then (
      res := Buffer.contents cur :: !res; Buffer.clear cur; i := !i + 3)
    else (Buffer.add_char cur s.[!i]; incr i)
  done;
  res := Buffer.contents cur :: !res;
  List.rev !res
(* node table, terminals and number of levels of a snapshot line *)
let parse_snapshot (kname : string) (body : string) : Model.ctable * (Model.n * Model.n) list * int =
  let nodes = ref [] and terms = ref [] and nl = ref 0 in
  List.iter
    (fun piece ->
      match split_ws piece with
      | "V2L" :: r -> nl := List.length r
      | "N" :: lvl :: id :: _stored :: _rc :: ch ->
        nodes := (pos_of_z (Z.succ (Z.of_string id)),
                  { Model.cl = nat (int_of_string lvl); Model.cch = List.map parse_edge ch; Model.crc = Model.N0 }) :: !nodes
      | "T" :: id :: v -> terms := (n_of_string id, n_of_int (term_code kname (String.concat " " v))) :: !terms
      | _ -> ())
    (split_bar body);
  (List.rev !nodes, List.rev !terms, !nl)

let () =
  iter_cases stdin (fun c ->
      let kname = match param c "kind" with Some k -> k | None -> "bdd" in
      let k = kind_of kname in
      let table : Model.ctable ref = ref [] in
      let terms : (Model.n * Model.n) list ref = ref [] in
      let nl = ref 0 in
      let valid = ref false in          (* [table] is the implementation's table right now *)
      let in_par = ref false and replayed = ref false in
      (* apply cache: log-level state of coq/Mgr/ConcCache.v ([lt] is taken from [table]) *)
      let nb = pow2_ge (max 1 (match param c "cache" with Some v -> int_of_string v | None -> 1)) 1 in
      let cache0 () = { Model.lt = []; Model.lb = List.init nb (fun _ -> Model.LUnknown);
                        Model.lph = Model.GIdle; Model.lnext = Model.O } in
      let cs : Model.lst ref = ref (cache0 ()) in
      let failed = ref false in
      let fail step kind msg =
        stat "bad_C07" 1;
        if not !failed then (failed := true; verdict_bad c step kind ("prop=C07 " ^ msg)) in
      let show_id p = "n" ^ Z.to_string (Z.pred (z_of_pos p)) in
      let dyn_terms = (kname = "mtbdd") in
      let is_term (id : string) =
        if dyn_terms then (match int_of_string_opt id with Some i -> i < mtbdd_terminal_bound | None -> false)
        else List.exists (fun (t, _) -> string_of_n t = id) !terms in
      let rec edges = function
        | id :: tag :: r ->
          let e = if is_term id then Model.RT (n_of_string id) else Model.RN (pos_of_z (Z.succ (Z.of_string id))) in
          (* C07m: terminals come and go without events: a terminal id an event names counts as stored *)
          if dyn_terms && is_term id && not (List.exists (fun (t, _) -> string_of_n t = id) !terms) then (
            stat "ev_terminal_ids_first_seen_in_events" 1;
            terms := (n_of_string id, n_of_int (1_000_000_000 + int_of_string id)) :: !terms);
          { Model.eref = e; Model.etag = (tag <> "0") } :: edges r
        | _ -> [] in
      (* C07m: end-state audit of the terminal table (extracted checker of coq/Mgr/ConcTerm.v) *)
      let audit_terminals step (body : string) (snap_terms : (Model.n * Model.n) list) after_block =
        let refs = ref [] in
        let term_of e = match (parse_edge e).Model.eref with Model.RT x -> Some x | Model.RN _ -> None in
        List.iter
          (fun piece ->
            match split_ws piece with
            | "H" :: slot :: e :: _ ->
              (match term_of e with Some x -> refs := (nat (int_of_string slot land 0xffff), x) :: !refs | None -> ())
            | "N" :: _lvl :: _id :: _stored :: _rc :: ch ->
              List.iter (fun e -> match term_of e with Some x -> refs := (nat 65536, x) :: !refs | None -> ()) ch
            | _ -> ())
          (split_bar body);
        stat "chk_C07_terminal_table" 1;
        if after_block then stat "chk_C07_terminal_table_after_block" 1;
        stat "terminals_audited" (List.length snap_terms);
        stat "terminal_edges_audited" (List.length !refs);
        let st = Model.lift_terms snap_terms !refs (nat 1) in
        if not (Model.tinv_b st) then (
          let where = if after_block then "after the parallel block" else "in the snapshot" in
          if not (Model.xterms_unique_b st) then (
            let rec dup = function
              | (i, v) :: r ->
                (match List.find_opt (fun (j, w) -> w = v || j = i) r with
                 | Some (j, _) -> Some (i, j)
                 | None -> dup r)
              | [] -> None in
            match dup snap_terms with
            | Some (i, j) ->
              fail step "prop" (Printf.sprintf "terminal table %s: the slots t%s and t%s hold the same terminal (hash consing broken: duplicate terminal)" where (string_of_n i) (string_of_n j))
            | None -> fail step "prop" (Printf.sprintf "terminal table %s: duplicate terminal" where))
          else if not (Model.counts_exact_b st) then (
            match List.find_opt (fun (_, x) -> not (List.exists (fun (t, _) -> t = x) snap_terms)) !refs with
            | Some (_, x) ->
              fail step "prop" (Printf.sprintf "terminal table %s: a handle or a stored node refers to terminal t%s, which the terminal manager does not hold (dangling edge to a collected terminal)" where (string_of_n x))
            | None -> fail step "corr" "driver: counts_exact_b false on a lifted snapshot")
          else fail step "corr" "driver: tinv_b false on a lifted snapshot") in
      let shape_list (t : Model.ctable) =
        List.sort compare
          (List.map (fun (id, nd) ->
               (Z.to_string (z_of_pos id), int_of_nat nd.Model.cl, String.concat "," (List.map show_edge nd.Model.cch))) t) in
      List.iteri
        (fun i l ->
          let ops, res = split_arrow l in
          match split_ws ops with
          | [ "SNAP" ] ->
            (try
               let snap_tbl, snap_terms, snap_nl = parse_snapshot kname res in
               if !valid && !replayed then (
                 stat "chk_C07_table_after_block" 1;
                 let a = shape_list !table and b = shape_list snap_tbl in
                 if a <> b then (
                   let only l1 l2 = List.filter (fun x -> not (List.mem x l2)) l1 in
                   let show (id, lv, ch) = Printf.sprintf "n%s@%d[%s]" (Z.to_string (Z.pred (Z.of_string id))) lv ch in
                   fail i "prop"
                     (Printf.sprintf "table after the parallel block differs from the replayed log: only in the model {%s}, only in the manager {%s}"
                        (String.concat " " (List.map show (only a b))) (String.concat " " (List.map show (only b a))))));
               if dyn_terms then audit_terminals i res snap_terms !replayed;
               table := snap_tbl; terms := snap_terms; nl := snap_nl;
               valid := true; replayed := false
             with Failure m -> fail i "corr" ("driver: " ^ m))
          | "PAR" :: _ ->
            in_par := true; stat "par_blocks" 1; cs := cache0 ();
            if not !valid then stat "par_blocks_not_replayed" 1
          | "ENDPAR" :: _ ->
            in_par := false; replayed := true;
            if !valid && !cs.Model.lph <> Model.GIdle then
              fail i "prop" (Printf.sprintf "at the end of the parallel block a collection is still in cache phase %s (%d of %d buckets processed)"
                               (show_phase !cs.Model.lph) (int_of_nat !cs.Model.lnext) nb)
          | "EVSTAT" :: kv ->
            List.iter (fun t -> match String.split_on_char '=' t with
                | [ s; v ] -> stat ("site_" ^ s) (int_of_string v) | _ -> ()) kv
          | "EV" :: "G" :: _tid :: lvl :: nf :: id :: ch when !valid ->
            stat "ev_goi" 1;
            let chl = edges ch in
            let pid = pos_of_z (Z.succ (Z.of_string id)) in
            let lv = nat (int_of_string lvl) in
            let before = Model.find_shape !table lv chl in
            (match Model.step_tbl k !terms (nat !nl) !table (Model.TGoi (lv, chl, pid)) with
             | None ->
               if not (Model.node_pre_b k !terms (nat !nl) !table lv chl) then
                 fail i "prop"
                   (Printf.sprintf "get_or_insert(level %s, [%s]) -> %s: a child is not stored / not on a lower level, or the node violates the reduction rules"
                      lvl (String.concat " " (List.map show_edge chl)) (show_id pid))
               else
                 fail i "prop"
                   (Printf.sprintf "get_or_insert(level %s, [%s]) inserted under id %s, which a stored node already carries"
                      lvl (String.concat " " (List.map show_edge chl)) (show_id pid))
             | Some (t', rid) ->
               (match before, nf, rid with
                | Some ex, "new", _ ->
                  stat "ev_goi_new" 1;
                  fail i "prop"
                    (Printf.sprintf "get_or_insert(level %s, [%s]) inserted a second node %s although %s with the same level and children is stored (duplicate)"
                       lvl (String.concat " " (List.map show_edge chl)) (show_id pid) (show_id ex))
                | None, "found", _ ->
                  fail i "prop"
                    (Printf.sprintf "get_or_insert(level %s, [%s]) found %s, which the table does not hold (stale entry)"
                       lvl (String.concat " " (List.map show_edge chl)) (show_id pid))
                | Some ex, "found", _ when ex <> pid ->
                  fail i "prop"
                    (Printf.sprintf "get_or_insert(level %s, [%s]) returned %s but this shape is stored as %s"
                       lvl (String.concat " " (List.map show_edge chl)) (show_id pid) (show_id ex))
                | _, "new", Some r when r = pid -> stat "ev_goi_new" 1; table := t'
                | _, "found", Some r when r = pid -> stat "ev_goi_found" 1; table := t'
                | _ -> fail i "corr" ("unexpected replay result for: " ^ l)))
          | "EV" :: "R" :: _tid :: id :: _ when !valid ->
            stat "ev_gc_remove" 1;
            let pid = pos_of_z (Z.succ (Z.of_string id)) in
            (* the collector removes nodes only while it holds every cache bucket *)
            if !cs.Model.lph <> Model.GSweep then
              fail i "prop"
                (Printf.sprintf "the collector removed %s while it does not hold all apply cache buckets (cache phase %s, %d of %d buckets processed): weak edges may be inserted during the sweep"
                   (show_id pid) (show_phase !cs.Model.lph) (int_of_nat !cs.Model.lnext) nb)
            else
            (match Model.clstep k !terms (nat !nl) { !cs with Model.lt = !table } (Model.CL (Model.LTbl (Model.TGc pid))) with
             | Some l' -> table := l'.Model.lt
             | None ->
               if Model.cfind !table pid = None then
                 fail i "prop" (Printf.sprintf "the collector removed %s, which is not stored" (show_id pid))
               else
                 fail i "prop" (Printf.sprintf "the collector removed %s although a stored node still refers to it" (show_id pid)))
          | "EV" :: ("CP" | "CL" | "CU" | "GB" | "GE" | "CA" | "CH" as ev) :: _tid :: rest when !valid ->
            let st = { !cs with Model.lt = !table } in
            let ph = st.Model.lph and next = int_of_nat st.Model.lnext in
            let run a = Model.clstep k !terms (nat !nl) st a in
            let claimed b = Model.gc_claimed_b ph st.Model.lnext (nat nb) (nat b) in
            let accept = function
              | Some l' -> cs := l'; true
              | None -> false in
            let ints = List.map int_of_string in
            let split_edges na nv ids =
              let all = edges ids in
              if List.length all <> na + nv then failwith "cache event: edge count";
              (List.filteri (fun j _ -> j < na) all, List.filteri (fun j _ -> j >= na) all) in
            let dangling es =
              List.filter (fun e -> not (Model.edge_ok_b k !terms !table e)) es in
            (try
               match ev, rest with
               | "CP", [ n ] ->
                 stat "ev_cache_pre_gc" 1;
                 if int_of_string n <> nb then
                   fail i "corr" (Printf.sprintf "driver: the cache has %s buckets, expected %d from the case header" n nb)
                 else if not (accept (run (Model.CL (Model.LPreGc (nat nb))))) then
                   fail i "prop" (Printf.sprintf "a collection starts pre_gc while the cache phase of a collection is %s (%d of %d buckets processed)" (show_phase ph) next nb)
               | "CL", [ f; cnt ] ->
                 let f, cnt = int_of_string f, int_of_string cnt in
                 stat "ev_cache_lock_runs" 1; stat "ev_cache_buckets_locked" cnt;
                 if not (accept (run (Model.CLockRun (nat f, nat cnt)))) then
                   (if ph = Model.GLock && f > next then
                      fail i "prop" (Printf.sprintf "pre_gc keeps bucket %d locked but left bucket%s %d..%d unlocked: they can receive weak edges during the sweep" f (if f - next > 1 then "s" else "") next (f - 1))
                    else
                      fail i "prop" (Printf.sprintf "pre_gc locks buckets %d..%d out of protocol (cache phase %s, %d of %d buckets processed)" f (f + cnt - 1) (show_phase ph) next nb))
               | "GB", [] ->
                 stat "ev_cache_sweeps" 1;
                 if not (accept (run (Model.CL Model.LSweep))) then
                   (if ph = Model.GLock then
                      fail i "prop" (Printf.sprintf "the sweep of a collection begins although pre_gc keeps only %d of %d apply cache buckets locked: buckets %d..%d can receive weak edges during the sweep" next nb next (nb - 1))
                    else
                      fail i "prop" (Printf.sprintf "the sweep of a collection begins without pre_gc (cache phase %s)" (show_phase ph)))
               | "CU", [ f; cnt ] ->
                 let f, cnt = int_of_string f, int_of_string cnt in
                 stat "ev_cache_unlock_runs" 1; stat "ev_cache_buckets_unlocked" cnt;
                 if not (accept (run (Model.CUnlockRun (nat f, nat cnt)))) then
                   fail i "prop" (Printf.sprintf "post_gc unlocks buckets %d..%d which the collector does not hold in this order (cache phase %s, %d of %d buckets processed)" f (f + cnt - 1) (show_phase ph) next nb)
               | "GE", [] ->
                 if not (accept (run (Model.CL Model.LGcEnd))) then
                   fail i "prop" (Printf.sprintf "a collection ends in cache phase %s with %d of %d buckets processed" (show_phase ph) next nb)
               | ("CA" | "CH"), b :: na :: nv :: ids ->
                 let b, na, nv = int_of_string b, int_of_string na, int_of_string nv in
                 let args, vals = split_edges na nv ids in
                 let what = if ev = "CA" then "insertion into" else "hit in" in
                 stat (if ev = "CA" then "ev_cache_add" else "ev_cache_hit") 1;
                 let a = if ev = "CA" then Model.LAdd (nat b, args, vals) else Model.LHit (nat b, args, vals) in
                 if b >= nb then fail i "corr" (Printf.sprintf "driver: bucket %d of %d" b nb)
                 else if not (accept (run (Model.CL a))) then
                   (if claimed b then
                      fail i "prop" (Printf.sprintf "apply cache %s bucket %d while the collector holds it (cache phase %s, %d of %d buckets processed): the bucket's lock was acquired by two parties or not kept" what b (show_phase ph) next nb)
                    else match dangling (args @ vals) with
                      | e :: _ ->
                        fail i "prop" (Printf.sprintf "apply cache %s bucket %d: the entry ([%s] -> [%s]) names %s, which is not stored (dangling weak edge)" what b
                                         (String.concat " " (List.map show_edge args)) (String.concat " " (List.map show_edge vals)) (show_edge e))
                      | [] ->
                        (match List.nth st.Model.lb b with
                         | Model.LEmpty ->
                           fail i "prop" (Printf.sprintf "apply cache hit in bucket %d, which pre_gc cleared and nobody has written since" b)
                         | Model.LFull (a0, v0) ->
                           fail i "prop" (Printf.sprintf "apply cache hit in bucket %d returns ([%s] -> [%s]) but the entry written last is ([%s] -> [%s])" b
                                            (String.concat " " (List.map show_edge args)) (String.concat " " (List.map show_edge vals))
                                            (String.concat " " (List.map show_edge a0)) (String.concat " " (List.map show_edge v0)))
                         | Model.LUnknown -> fail i "corr" ("unexpected replay result for: " ^ l)))
               | _ -> fail i "corr" ("driver: malformed cache event: " ^ l)
             with Failure m -> fail i "corr" ("driver: " ^ m ^ " in: " ^ l));
            ignore ints
          | "EV" :: _ -> stat "ev_skipped" 1
          | _ when !in_par -> ()
          | _ ->
            (* any other operation outside a parallel block changes the table without being logged *)
            valid := false)
        c.lines;
      stat "cases" 1;
      if not !failed then verdict_ok c);
  dump_stats ()
