(* C07 driver: trace validation of the concurrent unique table.

   Reads the trace of harness/src/bin/h_dd.rs built with --cfg oxidd_verif.  Inside a
   parallel block (PAR .. ENDPAR) the hooks of /repo log every get_or_insert (with the level
   mutex held: level, children, returned id, found/new) and every node the collector removes.
   The driver replays that log with the extracted table-level step function [Model.step_tbl]
   of coq/Mgr/Conc.v (the projection of the proved interleaving model [step], theorem
   C07_erase_sim): starting from the snapshot taken directly before the block, every logged
   event must be enabled in the model and return the logged node id, and the snapshot taken
   directly after the block must list exactly the model's table.

   "the implementation's trace is a trace of the model":
     - a get_or_insert that inserts although the shape is stored      -> duplicate node
     - a get_or_insert that finds a node the model does not hold       -> stale table entry
     - children that are not stored / not on a lower level / unreduced -> dangling or ill-formed
     - a collected node that still has a stored parent, or is unknown  -> premature collection
   (reference counts and value tables are audited by the DD driver on the same trace.)

   C07k -- the apply cache's weak references and the collector's cache protocol.  The hooks also
   log, each with the bucket's lock held: every successful cache insertion (EV CA) and every cache
   hit (EV CH) with bucket number, operand and value edges; the start of `pre_gc` (EV CP, number of
   buckets), every bucket `pre_gc` has cleared and keeps locked (EV CL, runs of consecutive
   buckets), the start of the sweep (EV GB), every bucket `post_gc` is about to unlock (EV CU) and
   the end of the collection (EV GE).  They are replayed, in log order and interleaved with the
   table events, by the extracted log-level step [Model.clstep] of coq/Mgr/ConcCache.v (theorems
   C07_cache_log_sim / C07_cache_trace_sim: it accepts the projection of every behaviour of the
   proved interleaving model; C07_cache_clog_inv: whatever it accepts has no dangling weak edge):
     - an insertion or a hit in a bucket between its pre_gc lock and its post_gc unlock
     - a node removed by the collector while not ALL buckets are locked (a bucket skipped by
       pre_gc, the sweep starting early)
     - post_gc unlocking a bucket pre_gc did not lock
     - a hit whose entry names a node that is not stored in the replayed table (dangling weak
       edge), or differs from the entry written last, or in a bucket cleared and not written since
   are violations (kind=prop).

   C07m -- MTBDD (kind mtbdd): terminals are created and collected inside the blocks
   (`DynamicTerminalManager`), but the terminal manager has no hooks: terminal ids (index-based
   manager: ids below 0x2000000) that an event names are taken as stored (the replay of the table
   and cache events only constrains the INNER nodes there).  The tie for the terminal protocol
   (terminal collection only between pre_gc and post_gc, coq/Mgr/ConcTerm.v) is the END-STATE audit:
   every snapshot of an mtbdd case is lifted by the extracted [Model.lift_terms] (listed terminals,
   one counted edge per handle / child edge) and must satisfy the extracted invariant checker
   [Model.tinv_b] (theorem C07_term_lift_inv: pairwise distinct terminal ids and VALUES -- two slots
   with one value break hash consing --, every handle and child edge names a listed terminal);
   values and reference counts are audited by the DD driver on the same trace (sequential
   specification of every result, terminals surviving / missing after gc).

   C07t -- replay of the terminal manager's events (case parameter tt=1, kinds mtbdd / mtbddf; hook
   commit "verif hooks: terminal manager events"): the harness logs, for the WHOLE case, every
   `get_edge` (EV TF found id hash / TN new id hash / TO out of memory), every reference count
   increment (TR, after the `fetch_add`) and decrement (TD, before the `fetch_sub`) of a terminal, the
   terminal manager's collection (TB, TX removed id, TE) and every item of the terminal iterator (TI),
   inside parallel blocks in one total order with the table and cache events, outside the blocks
   together with the cache hits (CH) and the collector's phase events (CP CL GB CU GE) before the line
   of the operation / snapshot that caused them.  They are replayed by the extracted [Model.ystep] of
   coq/Mgr/ConcTermLog.v, the log-level projection of [xstep false] of coq/Mgr/ConcTerm.v (theorems
   C07_term_log_sim / _trace_sim: it accepts the log of every behaviour of the proved interleaving
   model; C07_term_log_inv: whatever it accepts keeps ids and values pairwise distinct and the free
   chain disjoint), starting from [Model.yinit tcap] = the new manager:
     - `found` of a value the replayed table does not hold under that id (a collected slot)
     - a new id that is in use, or a second slot for a stored value
     - an increment of a terminal that is not stored, or with no counted edge to it unless a `found`, a
       cache hit or the iterator announced it; a decrement without a counted edge; an announced
       increment that does not come (an edge handed out without being counted)
     - a removal of a terminal with a counted edge, or a scan / removal outside the sweep phase
       (terminals may only be collected between pre_gc and post_gc)
     - a cache hit whose value edge names a collected terminal
   are violations (kind=prop; prop=C07 inside a parallel block, prop=C05 outside); a new id that is
   not the head of the model's free chain is kind=corr.  At every snapshot the replayed table must
   equal the lifted snapshot ([Model.ymatch_b], theorems C07_term_log_match_lift / _match_proj): the
   same ids, count = handles + child edges of stored nodes for every terminal (the implementation's
   terminal counts are not readable, the replayed ones are the logged increments / decrements), no
   increment owed; and slot |-> value must agree with hash |-> value string of all earlier snapshots.
   While the replay is active [terms] follows the replayed table, so that the table and cache replay
   above also see a child / operand / value edge to a collected terminal. *)
open Conv

(* ---- trace parsing (the parts of ocaml/dd_types.ml needed here; that file depends on the
   DD extraction) ---- *)
let nat_cache =
  let a = Array.make 65537 Model.O in
  for i = 1 to 65536 do a.(i) <- Model.S a.(i - 1) done;
  a
let nat i = if i >= 0 && i <= 65536 then nat_cache.(i) else nat_of_int i
let rec pow2_ge n p = if p >= n then p else pow2_ge n (2 * p)
let show_phase = function
  | Model.GIdle -> "idle" | Model.GLock -> "pre_gc" | Model.GSweep -> "sweep" | Model.GUnlock -> "post_gc"
let kind_of = function
  | "bdd" -> Model.KBdd | "bcdd" -> Model.KBcdd | "zbdd" -> Model.KZbdd
  | "mtbdd" | "mtbddf" -> Model.KMtbdd | "tdd" -> Model.KTdd | k -> failwith ("kind " ^ k)
let show_tphase = function
  | Model.PIdle -> "idle" | Model.PLock -> "pre_gc" | Model.PSweep -> "sweep" | Model.PUnlock -> "post_gc" | Model.PLate -> "late"
(* MTBDD / TDD terminal values: interned in order of first appearance (only equality matters) *)
let interned : (string, int) Hashtbl.t = Hashtbl.create 64
let term_code kname (v : string) : int =
  match kname, v with
  | "bdd", "False" -> 0 | "bdd", "True" -> 1
  | "bcdd", _ -> 1
  | "zbdd", "Empty" -> 0 | "zbdd", "Base" -> 1
  | ("mtbdd" | "mtbddf" | "tdd"), _ ->
    (match Hashtbl.find_opt interned v with
     | Some c -> c
     | None -> let c = Hashtbl.length interned in Hashtbl.add interned v c; c)
  | _, _ -> failwith ("terminal " ^ v)
(* index-based manager, MTBDD: `terminals: 0x2000000` (crates/oxidd/src/mtbdd.rs) *)
let mtbdd_terminal_bound = 0x2000000
let parse_edge (t : string) : Model.edge =
  let n = String.length t in
  let tag = n > 0 && t.[n - 1] = '~' in
  let body = if tag then String.sub t 0 (n - 1) else t in
  let num = String.sub body 1 (String.length body - 1) in
  let r =
    if body.[0] = 'n' then Model.RN (pos_of_z (Z.succ (Z.of_string num)))   (* ids may be 0: shift by one *)
    else Model.RT (n_of_string num) in
  { Model.eref = r; Model.etag = tag }
let show_edge (e : Model.edge) =
  (match e.Model.eref with
   | Model.RN p -> "n" ^ Z.to_string (Z.pred (z_of_pos p))
   | Model.RT t -> "t" ^ string_of_n t)
  ^ if e.Model.etag then "~" else ""
let split_bar (s : string) : string list =
  let res = ref [] and cur = Buffer.create 64 in
  let n = String.length s in
  let i = ref 0 in
  while !i < n do
    if !i + 2 < n && s.[!i] = ' ' && s.[!i + 1] = '|' && s.[!i + 2] = ' ' then (
      res := Buffer.contents cur :: !res; Buffer.clear cur; i := !i + 3)
    else (Buffer.add_char cur s.[!i]; incr i)
  done;
  res := Buffer.contents cur :: !res;
  List.rev !res
(* node table, terminals and number of levels of a snapshot line *)
let parse_snapshot (kname : string) (body : string) : Model.ctable * (Model.n * Model.n) list * int =
  let nodes = ref [] and terms = ref [] and nl = ref 0 in
  List.iter
    (fun piece ->
      match split_ws piece with
      | "V2L" :: r -> nl := List.length r
      | "N" :: lvl :: id :: _stored :: _rc :: ch ->
        nodes := (pos_of_z (Z.succ (Z.of_string id)),
                  { Model.cl = nat (int_of_string lvl); Model.cch = List.map parse_edge ch; Model.crc = Model.N0 }) :: !nodes
      | "T" :: id :: v -> terms := (n_of_string id, n_of_int (term_code kname (String.concat " " v))) :: !terms
      | _ -> ())
    (split_bar body);
  (List.rev !nodes, List.rev !terms, !nl)

let () =
  iter_cases stdin (fun c ->
      let kname = match param c "kind" with Some k -> k | None -> "bdd" in
      let k = kind_of kname in
      let table : Model.ctable ref = ref [] in
      let terms : (Model.n * Model.n) list ref = ref [] in
      let nl = ref 0 in
      let valid = ref false in          (* [table] is the implementation's table right now *)
      let in_par = ref false and replayed = ref false in
      (* apply cache: log-level state of coq/Mgr/ConcCache.v ([lt] is taken from [table]) *)
      let nb = pow2_ge (max 1 (match param c "cache" with Some v -> int_of_string v | None -> 1)) 1 in
      let cache0 () = { Model.lt = []; Model.lb = List.init nb (fun _ -> Model.LUnknown);
                        Model.lph = Model.GIdle; Model.lnext = Model.O } in
      let cs : Model.lst ref = ref (cache0 ()) in
      let failed = ref false in
      let fail step kind msg =
        stat "bad_C07" 1;
        if not !failed then (failed := true; verdict_bad c step kind ("prop=C07 " ^ msg)) in
      let show_id p = "n" ^ Z.to_string (Z.pred (z_of_pos p)) in
      let dyn_terms = (kname = "mtbdd" || kname = "mtbddf") in
      (* C07t: the terminal manager's events are in the log *)
      let tt = dyn_terms && param c "tt" = Some "1" in
      let is_term (id : string) =
        if dyn_terms then (match int_of_string_opt id with Some i -> i < mtbdd_terminal_bound | None -> false)
        else List.exists (fun (t, _) -> string_of_n t = id) !terms in
      let rec edges = function
        | id :: tag :: r ->
          let e = if is_term id then Model.RT (n_of_string id) else Model.RN (pos_of_z (Z.succ (Z.of_string id))) in
          (* C07m: terminals come and go without events: a terminal id an event names counts as stored *)
          if dyn_terms && not tt && is_term id && not (List.exists (fun (t, _) -> string_of_n t = id) !terms) then (
            stat "ev_terminal_ids_first_seen_in_events" 1;
            terms := (n_of_string id, n_of_int (1_000_000_000 + int_of_string id)) :: !terms);
          { Model.eref = e; Model.etag = (tag <> "0") } :: edges r
        | _ -> [] in
      (* C07m: end-state audit of the terminal table (extracted checker of coq/Mgr/ConcTerm.v) *)
      let audit_terminals step (body : string) (snap_terms : (Model.n * Model.n) list) after_block =
        let refs = ref [] in
        let term_of e = match (parse_edge e).Model.eref with Model.RT x -> Some x | Model.RN _ -> None in
        List.iter
          (fun piece ->
            match split_ws piece with
            | "H" :: slot :: e :: _ ->
              (match term_of e with Some x -> refs := (nat (int_of_string slot land 0xffff), x) :: !refs | None -> ())
            | "N" :: _lvl :: _id :: _stored :: _rc :: ch ->
              List.iter (fun e -> match term_of e with Some x -> refs := (nat 65536, x) :: !refs | None -> ()) ch
            | _ -> ())
          (split_bar body);
        stat "chk_C07_terminal_table" 1;
        if after_block then stat "chk_C07_terminal_table_after_block" 1;
        stat "terminals_audited" (List.length snap_terms);
        stat "terminal_edges_audited" (List.length !refs);
        let st = Model.lift_terms snap_terms !refs (nat 1) in
        if not (Model.tinv_b st) then (
          let where = if after_block then "after the parallel block" else "in the snapshot" in
          if not (Model.xterms_unique_b st) then (
            let rec dup = function
              | (i, v) :: r ->
                (match List.find_opt (fun (j, w) -> w = v || j = i) r with
                 | Some (j, _) -> Some (i, j)
                 | None -> dup r)
              | [] -> None in
            match dup snap_terms with
            | Some (i, j) ->
              fail step "prop" (Printf.sprintf "terminal table %s: the slots t%s and t%s hold the same terminal (hash consing broken: duplicate terminal)" where (string_of_n i) (string_of_n j))
            | None -> fail step "prop" (Printf.sprintf "terminal table %s: duplicate terminal" where))
          else if not (Model.counts_exact_b st) then (
            match List.find_opt (fun (_, x) -> not (List.exists (fun (t, _) -> t = x) snap_terms)) !refs with
            | Some (_, x) ->
              fail step "prop" (Printf.sprintf "terminal table %s: a handle or a stored node refers to terminal t%s, which the terminal manager does not hold (dangling edge to a collected terminal)" where (string_of_n x))
            | None -> fail step "corr" "driver: counts_exact_b false on a lifted snapshot")
          else fail step "corr" "driver: tinv_b false on a lifted snapshot") in
      (* ---- C07t: replay of the terminal manager's events by the extracted [Model.ystep] ---- *)
      let ty : Model.yst ref =
        ref (Model.yinit (nat (if tt then min mtbdd_terminal_bound (param_int c "tcap" 4096) else 0))) in
      let t_events = ref 0 in
      let t_locked = ref 0 and t_nb = ref (-1) in     (* buckets pre_gc has locked / buckets of the cache *)
      let hv : (string, string) Hashtbl.t = Hashtbl.create 64 and vh : (string, string) Hashtbl.t = Hashtbl.create 64 in
      let tprop () = if !in_par then "C07" else "C05" in
      let tstat k = stat k 1; if !in_par then stat (k ^ "_in_blocks") 1 in
      let failt step kind msg =
        stat ("bad_" ^ tprop ()) 1;
        if not !failed then (failed := true; verdict_bad c step kind ("prop=" ^ tprop () ^ " " ^ msg)) in
      let tn x = "t" ^ string_of_n x in
      let ydo l = match Model.ystep !ty l with Some y' -> ty := y'; true | None -> false in
      let tnode x = Model.tfind !ty.Model.y_tt x in
      let owes t = Model.yowes !ty.Model.y_pend t in
      let owed t = String.concat " " (List.filter_map (fun (t', x) -> if t' = t then Some (tn x) else None) !ty.Model.y_pend) in
      let where () = if !in_par then "inside the parallel block" else "in the sequential part" in
      let phase_rule = "terminals may only be collected between pre_gc and post_gc, while every apply cache bucket is cleared and locked" in
      let yphase step l = if not (ydo l) then failt step "corr" (Printf.sprintf "driver: the collector's phase events do not follow the model's phases (terminal replay in phase %s)" (show_tphase !ty.Model.y_ph)) in
      let term_event step (toks : string list) : bool =
        if not tt then false
        else match toks with
          | "EV" :: ("TF" | "TN" as ev) :: t :: id :: h :: _ ->
            incr t_events; tstat (if ev = "TF" then "ev_term_get_found" else "ev_term_get_new");
            let t = nat (int_of_string t) and x = n_of_string id and v = n_of_string h in
            let stored_as = Model.tfind_val !ty.Model.y_tt v in
            if ev = "TF" then (
              if not (ydo (Model.YFound (t, v, x))) then (
                if owes t then failt step "prop" (Printf.sprintf "get_terminal finds %s while the thread still owes the reference count increment of %s (an edge was handed out without being counted)" (tn x) (owed t))
                else match stored_as, tnode x with
                  | Some x', _ -> failt step "prop" (Printf.sprintf "get_terminal found %s for a value that the replayed table holds as %s (two slots for one value: hash consing broken)" (tn x) (tn x'))
                  | None, Some _ -> failt step "prop" (Printf.sprintf "get_terminal found %s for the value with hash %s, but the replayed table holds another value in that slot (the slot was collected and reused while the unique table kept the stale entry)" (tn x) h)
                  | None, None -> failt step "prop" (Printf.sprintf "get_terminal found %s, which the replayed table does not hold: a `found` of a collected slot" (tn x))))
            else (
              if not (ydo (Model.YNew (t, v, x))) then (
                if owes t then failt step "prop" (Printf.sprintf "get_terminal inserts %s while the thread still owes the reference count increment of %s" (tn x) (owed t))
                else match stored_as, tnode x, !ty.Model.y_free with
                  | Some x', _, _ -> failt step "prop" (Printf.sprintf "get_terminal inserted a value under the new id %s although it is stored as %s (duplicate terminal: hash consing broken)" (tn x) (tn x'))
                  | None, Some nd, _ -> failt step "prop" (Printf.sprintf "get_terminal took the new id %s, which is in use (the slot holds a terminal with %s counted edges)" (tn x) (string_of_n nd.Model.tn_rc))
                  | None, None, [] -> failt step "corr" (Printf.sprintf "get_terminal took the new id %s but the model's free chain is empty (OutOfMemory expected)" (tn x))
                  | None, None, hd :: _ -> failt step "corr" (Printf.sprintf "get_terminal took the new id %s but the head of the model's free chain is %s" (tn x) (tn hd)))
              else if not (List.exists (fun (i, _) -> i = x) !terms) then terms := (x, v) :: !terms);
            true
          | "EV" :: "TO" :: t :: h :: _ ->
            incr t_events; tstat "ev_term_get_oom";
            let t = nat (int_of_string t) and v = n_of_string h in
            if not (ydo (Model.YOom (t, v))) then (
              match Model.tfind_val !ty.Model.y_tt v, !ty.Model.y_free with
              | Some x', _ -> failt step "prop" (Printf.sprintf "get_terminal failed with OutOfMemory although the value is stored as %s" (tn x'))
              | None, hd :: _ -> failt step "prop" (Printf.sprintf "get_terminal failed with OutOfMemory although slot %s is free (%d free slots in the replayed table)" (tn hd) (List.length !ty.Model.y_free))
              | None, [] -> failt step "prop" (Printf.sprintf "get_terminal runs while the thread still owes the reference count increment of %s" (owed t)));
            true
          | "EV" :: ("TR" | "TD" as ev) :: t :: id :: _ ->
            incr t_events; tstat (if ev = "TR" then "ev_term_retain" else "ev_term_release");
            let t = nat (int_of_string t) and x = n_of_string id in
            let announced = owes t in
            if ev = "TR" then (
              if announced then tstat "ev_term_retain_announced";
              if not (ydo (Model.YRetain (t, x))) then (
                match tnode x with
                | None -> failt step "prop" (Printf.sprintf "reference count increment of %s, which is not stored (an edge to a collected terminal is cloned%s)" (tn x) (if announced then "; it was handed out by a `found` / cache hit / iterator item" else ""))
                | Some _ when announced -> failt step "prop" (Printf.sprintf "the thread increments %s but owes the increment of %s (announced by a `found` / cache hit / iterator item)" (tn x) (owed t))
                | Some _ -> failt step "prop" (Printf.sprintf "reference count increment (clone_edge) of %s although no counted edge to it exists (replayed count 0: only the unique table refers to it)" (tn x))))
            else (
              if not (ydo (Model.YRelease (t, x))) then (
                if announced then failt step "prop" (Printf.sprintf "the thread releases %s while it still owes the reference count increment of %s: an edge was handed out (by get_terminal / a cache hit / the terminal iterator) without being counted" (tn x) (owed t))
                else match tnode x with
                  | None -> failt step "prop" (Printf.sprintf "release of %s, which is not stored (dangling edge to a collected terminal)" (tn x))
                  | Some _ -> failt step "prop" (Printf.sprintf "release of %s although no counted edge to it exists (replayed count 0: the count drops below the unique table's own reference)" (tn x))));
            true
          | "EV" :: "TI" :: t :: id :: _ ->
            incr t_events; tstat "ev_term_iter";
            let t = nat (int_of_string t) and x = n_of_string id in
            if not (ydo (Model.YIter (t, x))) then (
              if owes t then failt step "prop" (Printf.sprintf "the terminal iterator yields %s while the thread still owes the reference count increment of %s: the previous item was handed out without being counted" (tn x) (owed t))
              else failt step "prop" (Printf.sprintf "the terminal iterator yields %s, which is not stored" (tn x)));
            true
          | "EV" :: "TB" :: _ ->
            incr t_events; tstat "ev_term_gc";
            (* (the sweep phase begins when pre_gc has locked the last bucket; GC_BEGIN is only its first witness) *)
            if !ty.Model.y_ph = Model.PLock && !t_nb >= 0 && !t_locked = !t_nb then yphase step Model.YSweep;
            if not (ydo Model.YScan) then
              failt step "prop" (Printf.sprintf "the terminal manager's collection starts %s in collector phase %s: %s" (where ()) (show_tphase !ty.Model.y_ph) phase_rule);
            true
          | "EV" :: "TX" :: _t :: id :: _ ->
            incr t_events; tstat "ev_term_removed";
            let x = n_of_string id in
            if not (ydo (Model.YFree x)) then (
              if !ty.Model.y_ph <> Model.PSweep then
                failt step "prop" (Printf.sprintf "the terminal manager's collection removes %s %s in collector phase %s: %s" (tn x) (where ()) (show_tphase !ty.Model.y_ph) phase_rule)
              else match tnode x with
                | None -> failt step "prop" (Printf.sprintf "the terminal manager's collection removes %s, which is not stored" (tn x))
                | Some nd -> failt step "prop" (Printf.sprintf "the terminal manager's collection removes %s although %s counted edge(s) refer to it (removal of a terminal with a counted edge)" (tn x) (string_of_n nd.Model.tn_rc)))
            else terms := List.filter (fun (i, _) -> i <> x) !terms;
            true
          | "EV" :: "TE" :: _ -> incr t_events; true
          | "EV" :: "CH" :: t :: _b :: na :: nv :: ids ->
            (* the value edges of a hit are cloned next: the increments of the terminals among them are owed *)
            let na = int_of_string na and nv = int_of_string nv in
            let rec pairs = function id :: _tag :: r -> id :: pairs r | _ -> [] in
            let vals = List.filteri (fun j _ -> j >= na && j < na + nv) (pairs ids) in
            let xs = List.filter_map (fun id -> if is_term id then Some (n_of_string id) else None) vals in
            let t = nat (int_of_string t) in
            if xs <> [] then (
              stat "ev_term_hit_value_edges" (List.length xs);
              if not (ydo (Model.YHitVals (t, xs))) then (
                if owes t then failt step "prop" (Printf.sprintf "apply cache hit while the thread still owes the reference count increment of %s" (owed t))
                else match List.find_opt (fun x -> tnode x = None) xs with
                  | Some x -> failt step "prop" (Printf.sprintf "apply cache hit hands out %s, which is not stored: the entry's weak value edge names a collected terminal" (tn x))
                  | None -> failt step "corr" "driver: YHitVals refused"));
            false
          | "EV" :: "CP" :: _t :: n :: _ ->
            t_nb := int_of_string n; t_locked := 0;
            (* (a reordering ends with post_gc, without a GC_END event) *)
            if !ty.Model.y_ph = Model.PUnlock then yphase step Model.YGcEnd;
            if !ty.Model.y_ph = Model.PIdle then yphase step Model.YPreGc;
            false
          | "EV" :: "CL" :: _t :: _f :: cnt :: _ -> t_locked := !t_locked + int_of_string cnt; false
          | "EV" :: "GB" :: _ ->
            (* (inside a reordering the buckets stay locked over several collections: already in the sweep phase) *)
            if !ty.Model.y_ph = Model.PLock then yphase step Model.YSweep;
            false
          | "EV" :: "CU" :: _ ->
            if !ty.Model.y_ph = Model.PLock && not !in_par then yphase step Model.YSweep;      (* reordering without a collection *)
            if !ty.Model.y_ph = Model.PSweep then yphase step Model.YPostGc;
            false
          | "EV" :: "GE" :: _ ->
            if !ty.Model.y_ph = Model.PUnlock then yphase step Model.YGcEnd;
            false
          | _ -> false in
      (* C07t: the replayed terminal table against the lifted snapshot *)
      let match_terminals step (body : string) (snap_terms_s : (Model.n * string) list) =
        let refs = ref [] in
        let term_of e = match (parse_edge e).Model.eref with Model.RT x -> Some x | Model.RN _ -> None in
        List.iter
          (fun piece ->
            match split_ws piece with
            | "H" :: slot :: e :: _ ->
              (match term_of e with Some x -> refs := (nat (int_of_string slot land 0xffff), x) :: !refs | None -> ())
            | "N" :: _lvl :: _id :: _stored :: _rc :: ch ->
              List.iter (fun e -> match term_of e with Some x -> refs := (nat 65536, x) :: !refs | None -> ()) ch
            | _ -> ())
          (split_bar body);
        let ids = List.map fst snap_terms_s in
        tstat "chk_term_replay_vs_snapshot";
        stat "term_replay_terminals_compared" (List.length ids);
        stat "term_replay_counted_edges_compared" (List.length !refs);
        let y = !ty in
        if !t_events = 0 && ids <> [] then
          failt step "corr" "driver: the case carries tt=1 but the log holds no terminal manager event (hooks inactive?)"
        (* (theorem C07_term_log_run_inv; evaluated where the free chain is short: quadratic) *)
        else if List.length y.Model.y_free <= 64 && (stat "chk_term_replay_invariant" 1; not (Model.yinv_b y)) then
          failt step "corr" "driver: yinv_b false on the replayed terminal table"
        else if not (Model.ymatch_b y ids !refs) then (
          let cnt x = List.length (List.filter (fun (_, z) -> z = x) !refs) in
          match List.find_opt (fun x -> not (Model.stored_b y.Model.y_tt x)) ids with
          | Some x -> failt step "corr" (Printf.sprintf "the manager lists %s, which the replayed terminal table does not hold" (tn x))
          | None ->
            match List.find_opt (fun (x, _) -> not (List.mem x ids)) y.Model.y_tt with
            | Some (x, _) -> failt step "prop" (Printf.sprintf "the replayed terminal table holds %s (no removal was logged), but the manager does not list it" (tn x))
            | None ->
              match List.find_opt (fun (_, x) -> not (Model.stored_b y.Model.y_tt x)) !refs with
              | Some (_, x) -> failt step "prop" (Printf.sprintf "a handle or a stored node refers to %s, which is not stored (dangling edge to a collected terminal)" (tn x))
              | None ->
                match List.find_opt (fun (x, nd) -> Z.to_int (z_of_n nd.Model.tn_rc) <> cnt x) y.Model.y_tt with
                | Some (x, nd) ->
                  failt step "prop" (Printf.sprintf "reference count of %s: the logged increments and decrements leave %s counted edge(s), the snapshot shows %d (handles + child edges of stored nodes): the count is not exact" (tn x) (string_of_n nd.Model.tn_rc) (cnt x))
                | None ->
                  match y.Model.y_pend with
                  | (t, x) :: _ -> failt step "prop" (Printf.sprintf "at the snapshot thread %d still owes the reference count increment of %s (an edge was handed out without being counted)" (int_of_nat t) (tn x))
                  | [] -> failt step "corr" "driver: ymatch_b false on the replayed terminal table")
        else
          (* slot |-> value (snapshot) against slot |-> hash (log): one value string per hash and vice versa *)
          List.iter
            (fun (x, vs) ->
              match tnode x with
              | None -> ()
              | Some nd ->
                let h = string_of_n nd.Model.tn_val in
                (match Hashtbl.find_opt hv h, Hashtbl.find_opt vh vs with
                 | None, None -> Hashtbl.replace hv h vs; Hashtbl.replace vh vs h
                 | Some vs', _ when vs' <> vs ->
                   failt step "prop" (Printf.sprintf "%s holds the value %s, but the value logged for this slot (hash %s) was %s at an earlier snapshot: the slot's value changed without an event" (tn x) vs h vs')
                 | _, Some h' when h' <> h ->
                   failt step "prop" (Printf.sprintf "%s holds the value %s with hash %s, but this value had the hash %s earlier: the slot's value changed without an event" (tn x) vs h h')
                 | _ -> ()))
            snap_terms_s in
      let shape_list (t : Model.ctable) =
        List.sort compare
          (List.map (fun (id, nd) ->
               (Z.to_string (z_of_pos id), int_of_nat nd.Model.cl, String.concat "," (List.map show_edge nd.Model.cch))) t) in
      List.iteri
        (fun i l ->
          let ops, res = split_arrow l in
          let toks = split_ws ops in
          if (match toks with "EV" :: _ -> term_event i toks | _ -> false) then ()
          else if tt && (match toks with ("HANG" | "PANIC" | "CRASH") :: _ -> true | _ -> false) then
            (* (the overflow guard of `retain` aborts the process once a count has been driven below zero) *)
            failt i "prop" ("implementation panicked/aborted/hung: " ^ l)
          else
          match toks with
          | [ "SNAP" ] ->
            (try
               let snap_tbl, snap_terms, snap_nl = parse_snapshot kname res in
               if !valid && !replayed then (
                 stat "chk_C07_table_after_block" 1;
                 let a = shape_list !table and b = shape_list snap_tbl in
                 if a <> b then (
                   let only l1 l2 = List.filter (fun x -> not (List.mem x l2)) l1 in
                   let show (id, lv, ch) = Printf.sprintf "n%s@%d[%s]" (Z.to_string (Z.pred (Z.of_string id))) lv ch in
                   fail i "prop"
                     (Printf.sprintf "table after the parallel block differs from the replayed log: only in the model {%s}, only in the manager {%s}"
                        (String.concat " " (List.map show (only a b))) (String.concat " " (List.map show (only b a))))));
               if dyn_terms then audit_terminals i res snap_terms !replayed;
               if tt then
                 match_terminals i res
                   (List.filter_map (fun piece -> match split_ws piece with
                        | "T" :: id :: v -> Some (n_of_string id, String.concat " " v) | _ -> None) (split_bar res));
               table := snap_tbl; terms := snap_terms; nl := snap_nl;
               valid := true; replayed := false
             with Failure m -> fail i "corr" ("driver: " ^ m))
          | "PAR" :: _ ->
            in_par := true; stat "par_blocks" 1; cs := cache0 ();
            if not !valid then stat "par_blocks_not_replayed" 1
          | "ENDPAR" :: _ ->
            in_par := false; replayed := true;
            if !valid && !cs.Model.lph <> Model.GIdle then
              fail i "prop" (Printf.sprintf "at the end of the parallel block a collection is still in cache phase %s (%d of %d buckets processed)"
                               (show_phase !cs.Model.lph) (int_of_nat !cs.Model.lnext) nb)
          | "EVSTAT" :: kv ->
            List.iter (fun t -> match String.split_on_char '=' t with
                | [ s; v ] -> stat ("site_" ^ s) (int_of_string v) | _ -> ()) kv
          | "EV" :: "G" :: _tid :: lvl :: nf :: id :: ch when !valid && !in_par ->
            stat "ev_goi" 1;
            let chl = edges ch in
            let pid = pos_of_z (Z.succ (Z.of_string id)) in
            let lv = nat (int_of_string lvl) in
            let before = Model.find_shape !table lv chl in
            (match Model.step_tbl k !terms (nat !nl) !table (Model.TGoi (lv, chl, pid)) with
             | None ->
               if not (Model.node_pre_b k !terms (nat !nl) !table lv chl) then
                 fail i "prop"
                   (Printf.sprintf "get_or_insert(level %s, [%s]) -> %s: a child is not stored / not on a lower level, or the node violates the reduction rules"
                      lvl (String.concat " " (List.map show_edge chl)) (show_id pid))
               else
                 fail i "prop"
                   (Printf.sprintf "get_or_insert(level %s, [%s]) inserted under id %s, which a stored node already carries"
                      lvl (String.concat " " (List.map show_edge chl)) (show_id pid))
             | Some (t', rid) ->
               (match before, nf, rid with
                | Some ex, "new", _ ->
                  stat "ev_goi_new" 1;
                  fail i "prop"
                    (Printf.sprintf "get_or_insert(level %s, [%s]) inserted a second node %s although %s with the same level and children is stored (duplicate)"
                       lvl (String.concat " " (List.map show_edge chl)) (show_id pid) (show_id ex))
                | None, "found", _ ->
                  fail i "prop"
                    (Printf.sprintf "get_or_insert(level %s, [%s]) found %s, which the table does not hold (stale entry)"
                       lvl (String.concat " " (List.map show_edge chl)) (show_id pid))
                | Some ex, "found", _ when ex <> pid ->
                  fail i "prop"
                    (Printf.sprintf "get_or_insert(level %s, [%s]) returned %s but this shape is stored as %s"
                       lvl (String.concat " " (List.map show_edge chl)) (show_id pid) (show_id ex))
                | _, "new", Some r when r = pid -> stat "ev_goi_new" 1; table := t'
                | _, "found", Some r when r = pid -> stat "ev_goi_found" 1; table := t'
                | _ -> fail i "corr" ("unexpected replay result for: " ^ l)))
          | "EV" :: "R" :: _tid :: id :: _ when !valid && !in_par ->
            stat "ev_gc_remove" 1;
            let pid = pos_of_z (Z.succ (Z.of_string id)) in
            (* the collector removes nodes only while it holds every cache bucket *)
            if !cs.Model.lph <> Model.GSweep then
              fail i "prop"
                (Printf.sprintf "the collector removed %s while it does not hold all apply cache buckets (cache phase %s, %d of %d buckets processed): weak edges may be inserted during the sweep"
                   (show_id pid) (show_phase !cs.Model.lph) (int_of_nat !cs.Model.lnext) nb)
            else
            (match Model.clstep k !terms (nat !nl) { !cs with Model.lt = !table } (Model.CL (Model.LTbl (Model.TGc pid))) with
             | Some l' -> table := l'.Model.lt
             | None ->
               if Model.cfind !table pid = None then
                 fail i "prop" (Printf.sprintf "the collector removed %s, which is not stored" (show_id pid))
               else
                 fail i "prop" (Printf.sprintf "the collector removed %s although a stored node still refers to it" (show_id pid)))
          | "EV" :: ("CP" | "CL" | "CU" | "GB" | "GE" | "CA" | "CH" as ev) :: _tid :: rest when !valid && !in_par ->
            let st = { !cs with Model.lt = !table } in
            let ph = st.Model.lph and next = int_of_nat st.Model.lnext in
            let run a = Model.clstep k !terms (nat !nl) st a in
            let claimed b = Model.gc_claimed_b ph st.Model.lnext (nat nb) (nat b) in
            let accept = function
              | Some l' -> cs := l'; true
              | None -> false in
            let ints = List.map int_of_string in
            let split_edges na nv ids =
              let all = edges ids in
              if List.length all <> na + nv then failwith "cache event: edge count";
              (List.filteri (fun j _ -> j < na) all, List.filteri (fun j _ -> j >= na) all) in
            let dangling es =
              List.filter (fun e -> not (Model.edge_ok_b k !terms !table e)) es in
            (try
               match ev, rest with
               | "CP", [ n ] ->
                 stat "ev_cache_pre_gc" 1;
                 if int_of_string n <> nb then
                   fail i "corr" (Printf.sprintf "driver: the cache has %s buckets, expected %d from the case header" n nb)
                 else if not (accept (run (Model.CL (Model.LPreGc (nat nb))))) then
                   fail i "prop" (Printf.sprintf "a collection starts pre_gc while the cache phase of a collection is %s (%d of %d buckets processed)" (show_phase ph) next nb)
               | "CL", [ f; cnt ] ->
                 let f, cnt = int_of_string f, int_of_string cnt in
                 stat "ev_cache_lock_runs" 1; stat "ev_cache_buckets_locked" cnt;
                 if not (accept (run (Model.CLockRun (nat f, nat cnt)))) then
                   (if ph = Model.GLock && f > next then
                      fail i "prop" (Printf.sprintf "pre_gc keeps bucket %d locked but left bucket%s %d..%d unlocked: they can receive weak edges during the sweep" f (if f - next > 1 then "s" else "") next (f - 1))
                    else
                      fail i "prop" (Printf.sprintf "pre_gc locks buckets %d..%d out of protocol (cache phase %s, %d of %d buckets processed)" f (f + cnt - 1) (show_phase ph) next nb))
               | "GB", [] ->
                 stat "ev_cache_sweeps" 1;
                 if not (accept (run (Model.CL Model.LSweep))) then
                   (if ph = Model.GLock then
                      fail i "prop" (Printf.sprintf "the sweep of a collection begins although pre_gc keeps only %d of %d apply cache buckets locked: buckets %d..%d can receive weak edges during the sweep" next nb next (nb - 1))
                    else
                      fail i "prop" (Printf.sprintf "the sweep of a collection begins without pre_gc (cache phase %s)" (show_phase ph)))
               | "CU", [ f; cnt ] ->
                 let f, cnt = int_of_string f, int_of_string cnt in
                 stat "ev_cache_unlock_runs" 1; stat "ev_cache_buckets_unlocked" cnt;
                 if not (accept (run (Model.CUnlockRun (nat f, nat cnt)))) then
                   fail i "prop" (Printf.sprintf "post_gc unlocks buckets %d..%d which the collector does not hold in this order (cache phase %s, %d of %d buckets processed)" f (f + cnt - 1) (show_phase ph) next nb)
               | "GE", [] ->
                 if not (accept (run (Model.CL Model.LGcEnd))) then
                   fail i "prop" (Printf.sprintf "a collection ends in cache phase %s with %d of %d buckets processed" (show_phase ph) next nb)
               | ("CA" | "CH"), b :: na :: nv :: ids ->
                 let b, na, nv = int_of_string b, int_of_string na, int_of_string nv in
                 let args, vals = split_edges na nv ids in
                 let what = if ev = "CA" then "insertion into" else "hit in" in
                 stat (if ev = "CA" then "ev_cache_add" else "ev_cache_hit") 1;
                 let a = if ev = "CA" then Model.LAdd (nat b, args, vals) else Model.LHit (nat b, args, vals) in
                 if b >= nb then fail i "corr" (Printf.sprintf "driver: bucket %d of %d" b nb)
                 else if not (accept (run (Model.CL a))) then
                   (if claimed b then
                      fail i "prop" (Printf.sprintf "apply cache %s bucket %d while the collector holds it (cache phase %s, %d of %d buckets processed): the bucket's lock was acquired by two parties or not kept" what b (show_phase ph) next nb)
                    else match dangling (args @ vals) with
                      | e :: _ ->
                        fail i "prop" (Printf.sprintf "apply cache %s bucket %d: the entry ([%s] -> [%s]) names %s, which is not stored (dangling weak edge)" what b
                                         (String.concat " " (List.map show_edge args)) (String.concat " " (List.map show_edge vals)) (show_edge e))
                      | [] ->
                        (match List.nth st.Model.lb b with
                         | Model.LEmpty ->
                           fail i "prop" (Printf.sprintf "apply cache hit in bucket %d, which pre_gc cleared and nobody has written since" b)
                         | Model.LFull (a0, v0) ->
                           fail i "prop" (Printf.sprintf "apply cache hit in bucket %d returns ([%s] -> [%s]) but the entry written last is ([%s] -> [%s])" b
                                            (String.concat " " (List.map show_edge args)) (String.concat " " (List.map show_edge vals))
                                            (String.concat " " (List.map show_edge a0)) (String.concat " " (List.map show_edge v0)))
                         | Model.LUnknown -> fail i "corr" ("unexpected replay result for: " ^ l)))
               | _ -> fail i "corr" ("driver: malformed cache event: " ^ l)
             with Failure m -> fail i "corr" ("driver: " ^ m ^ " in: " ^ l));
            ignore ints
          | "EV" :: _ -> if !in_par then stat "ev_skipped" 1
          | _ when !in_par -> ()
          | _ ->
            (* any other operation outside a parallel block changes the table without being logged *)
            valid := false)
        c.lines;
      stat "cases" 1;
      if not !failed then verdict_ok c);
  dump_stats ()
