(* C07 driver: trace validation of the concurrent unique table.

   Reads the trace of harness/src/bin/h_dd.rs built with --cfg oxidd_verif.  Inside a
   parallel block (PAR .. ENDPAR) the hooks of /repo log every get_or_insert (with the level
   mutex held: level, children, returned id, found/new) and every node the collector removes.
   The driver replays that log with the extracted table-level step function [Model.step_tbl]
   of coq/Mgr/Conc.v (the projection of the proved interleaving model [step], theorem
   C07_erase_sim): starting from the snapshot taken directly before the block, every logged
   event must be enabled in the model and return the logged node id, and the snapshot taken
   directly after the block must list exactly the model's table.

   "the implementation's trace is a trace of the model":
     - a get_or_insert that inserts although the shape is stored      -> duplicate node
     - a get_or_insert that finds a node the model does not hold       -> stale table entry
     - children that are not stored / not on a lower level / unreduced -> dangling or ill-formed
     - a collected node that still has a stored parent, or is unknown  -> premature collection
   (reference counts and value tables are audited by the DD driver on the same trace.) *)
open Conv

(* ---- trace parsing (the parts of ocaml/dd_types.ml needed here; that file depends on the
   DD extraction) ---- *)
let nat_cache = Array.init 64 nat_of_int
let nat i = if i < 64 then nat_cache.(i) else nat_of_int i
let kind_of = function
  | "bdd" -> Model.KBdd | "bcdd" -> Model.KBcdd | "zbdd" -> Model.KZbdd
  | "mtbdd" -> Model.KMtbdd | "tdd" -> Model.KTdd | k -> failwith ("kind " ^ k)
let term_code kname (v : string) : int =
  match kname, v with
  | "bdd", "False" -> 0 | "bdd", "True" -> 1
  | "bcdd", _ -> 1
  | "zbdd", "Empty" -> 0 | "zbdd", "Base" -> 1
  | _, _ -> failwith ("terminal " ^ v)
let parse_edge (t : string) : Model.edge =
  let n = String.length t in
  let tag = n > 0 && t.[n - 1] = '~' in
  let body = if tag then String.sub t 0 (n - 1) else t in
  let num = String.sub body 1 (String.length body - 1) in
  let r =
    if body.[0] = 'n' then Model.RN (pos_of_z (Z.succ (Z.of_string num)))   (* ids may be 0: shift by one *)
    else Model.RT (n_of_string num) in
  { Model.eref = r; Model.etag = tag }
let show_edge (e : Model.edge) =
  (match e.Model.eref with
   | Model.RN p -> "n" ^ Z.to_string (Z.pred (z_of_pos p))
   | Model.RT t -> "t" ^ string_of_n t)
  ^ if e.Model.etag then "~" else ""
let split_bar (s : string) : string list =
  let res = ref [] and cur = Buffer.create 64 in
  let n = String.length s in
  let i = ref 0 in
  while !i < n do
    if !i + 2 < n && s.[!i] = ' ' && s.[!i + 1] = '|' && s.[!i + 2] = ' ' then (
      res := Buffer.contents cur :: !res; Buffer.clear cur; i := !i + 3)
    else (Buffer.add_char cur s.[!i]; incr i)
  done;
  res := Buffer.contents cur :: !res;
  List.rev !res
(* node table, terminals and number of levels of a snapshot line *)
let parse_snapshot (kname : string) (body : string) : Model.ctable * (Model.n * Model.n) list * int =
  let nodes = ref [] and terms = ref [] and nl = ref 0 in
  List.iter
    (fun piece ->
      match split_ws piece with
      | "V2L" :: r -> nl := List.length r
      | "N" :: lvl :: id :: _stored :: _rc :: ch ->
        nodes := (pos_of_z (Z.succ (Z.of_string id)),
                  { Model.cl = nat (int_of_string lvl); Model.cch = List.map parse_edge ch; Model.crc = Model.N0 }) :: !nodes
      | "T" :: id :: v -> terms := (n_of_string id, n_of_int (term_code kname (String.concat " " v))) :: !terms
      | _ -> ())
    (split_bar body);
  (List.rev !nodes, List.rev !terms, !nl)

let () =
  iter_cases stdin (fun c ->
      let kname = match param c "kind" with Some k -> k | None -> "bdd" in
      let k = kind_of kname in
      let table : Model.ctable ref = ref [] in
      let terms : (Model.n * Model.n) list ref = ref [] in
      let nl = ref 0 in
      let valid = ref false in          (* [table] is the implementation's table right now *)
      let in_par = ref false and replayed = ref false in
      let failed = ref false in
      let fail step kind msg =
        stat "bad_C07" 1;
        if not !failed then (failed := true; verdict_bad c step kind ("prop=C07 " ^ msg)) in
      let show_id p = "n" ^ Z.to_string (Z.pred (z_of_pos p)) in
      let is_term (id : string) = List.exists (fun (t, _) -> string_of_n t = id) !terms in
      let rec edges = function
        | id :: tag :: r ->
          let e = if is_term id then Model.RT (n_of_string id) else Model.RN (pos_of_z (Z.succ (Z.of_string id))) in
          { Model.eref = e; Model.etag = (tag <> "0") } :: edges r
        | _ -> [] in
      let shape_list (t : Model.ctable) =
        List.sort compare
          (List.map (fun (id, nd) ->
               (Z.to_string (z_of_pos id), int_of_nat nd.Model.cl, String.concat "," (List.map show_edge nd.Model.cch))) t) in
      List.iteri
        (fun i l ->
          let ops, res = split_arrow l in
          match split_ws ops with
          | [ "SNAP" ] ->
            (try
               let snap_tbl, snap_terms, snap_nl = parse_snapshot kname res in
               if !valid && !replayed then (
                 stat "chk_C07_table_after_block" 1;
                 let a = shape_list !table and b = shape_list snap_tbl in
                 if a <> b then (
                   let only l1 l2 = List.filter (fun x -> not (List.mem x l2)) l1 in
                   let show (id, lv, ch) = Printf.sprintf "n%s@%d[%s]" (Z.to_string (Z.pred (Z.of_string id))) lv ch in
                   fail i "prop"
                     (Printf.sprintf "table after the parallel block differs from the replayed log: only in the model {%s}, only in the manager {%s}"
                        (String.concat " " (List.map show (only a b))) (String.concat " " (List.map show (only b a))))));
               table := snap_tbl; terms := snap_terms; nl := snap_nl;
               valid := true; replayed := false
             with Failure m -> fail i "corr" ("driver: " ^ m))
          | "PAR" :: _ -> in_par := true; stat "par_blocks" 1; if not !valid then stat "par_blocks_not_replayed" 1
          | "ENDPAR" :: _ -> in_par := false; replayed := true
          | "EVSTAT" :: kv ->
            List.iter (fun t -> match String.split_on_char '=' t with
                | [ s; v ] -> stat ("site_" ^ s) (int_of_string v) | _ -> ()) kv
          | "EV" :: "G" :: _tid :: lvl :: nf :: id :: ch when !valid ->
            stat "ev_goi" 1;
            let chl = edges ch in
            let pid = pos_of_z (Z.succ (Z.of_string id)) in
            let lv = nat (int_of_string lvl) in
            let before = Model.find_shape !table lv chl in
            (match Model.step_tbl k !terms (nat !nl) !table (Model.TGoi (lv, chl, pid)) with
             | None ->
               if not (Model.node_pre_b k !terms (nat !nl) !table lv chl) then
                 fail i "prop"
                   (Printf.sprintf "get_or_insert(level %s, [%s]) -> %s: a child is not stored / not on a lower level, or the node violates the reduction rules"
                      lvl (String.concat " " (List.map show_edge chl)) (show_id pid))
               else
                 fail i "prop"
                   (Printf.sprintf "get_or_insert(level %s, [%s]) inserted under id %s, which a stored node already carries"
                      lvl (String.concat " " (List.map show_edge chl)) (show_id pid))
             | Some (t', rid) ->
               (match before, nf, rid with
                | Some ex, "new", _ ->
                  stat "ev_goi_new" 1;
                  fail i "prop"
                    (Printf.sprintf "get_or_insert(level %s, [%s]) inserted a second node %s although %s with the same level and children is stored (duplicate)"
                       lvl (String.concat " " (List.map show_edge chl)) (show_id pid) (show_id ex))
                | None, "found", _ ->
                  fail i "prop"
                    (Printf.sprintf "get_or_insert(level %s, [%s]) found %s, which the table does not hold (stale entry)"
                       lvl (String.concat " " (List.map show_edge chl)) (show_id pid))
                | Some ex, "found", _ when ex <> pid ->
                  fail i "prop"
                    (Printf.sprintf "get_or_insert(level %s, [%s]) returned %s but this shape is stored as %s"
                       lvl (String.concat " " (List.map show_edge chl)) (show_id pid) (show_id ex))
                | _, "new", Some r when r = pid -> stat "ev_goi_new" 1; table := t'
                | _, "found", Some r when r = pid -> stat "ev_goi_found" 1; table := t'
                | _ -> fail i "corr" ("unexpected replay result for: " ^ l)))
          | "EV" :: "R" :: _tid :: id :: _ when !valid ->
            stat "ev_gc_remove" 1;
            let pid = pos_of_z (Z.succ (Z.of_string id)) in
            (match Model.step_tbl k !terms (nat !nl) !table (Model.TGc pid) with
             | Some (t', _) -> table := t'
             | None ->
               if Model.cfind !table pid = None then
                 fail i "prop" (Printf.sprintf "the collector removed %s, which is not stored" (show_id pid))
               else
                 fail i "prop" (Printf.sprintf "the collector removed %s although a stored node still refers to it" (show_id pid)))
          | "EV" :: _ -> stat "ev_skipped" 1
          | _ when !in_par -> ()
          | _ ->
            (* any other operation outside a parallel block changes the table without being logged *)
            valid := false)
        c.lines;
      stat "cases" 1;
      if not !failed then verdict_ok c);
  dump_stats ()
