(* C10 (scalar level) driver: re-evaluates every line of the implementation's
   trace (h_num) with the extracted models of I64 / F64 and, independently,
   with the property predicate itself:

   - I64: exact arithmetic on Zarith integers extended by -inf/+inf/NaN, then
     saturation ("the exact result when representable, otherwise the infinity
     of its sign") — written here in OCaml, independent of the Coq text;
     a mismatch with the implementation is [kind=prop].  The extracted model
     ([Model.i64_add] ...) and the extracted spec layer ([Model.i64_spec_add]
     ...) must agree with it as well, otherwise [kind=corr].
   - F64: the model is Flocq's binary64 arithmetic followed by the
     normalisation, i.e. the property predicate; results must be normalised
     bit patterns.  OCaml's own doubles are a third opinion used only to
     classify a mismatch (impl <> model: [prop] when OCaml sides with the
     model, [corr] when it sides with the implementation). *)
open Conv

(* ------------------------------------------------------------------ I64 *)

type ext = ENan | ENegInf | EFin of Z.t | EPosInf

let i64_min_z = Z.neg (Z.shift_left Z.one 63)
let i64_max_z = Z.pred (Z.shift_left Z.one 63)
let in_range x = Z.leq i64_min_z x && Z.leq x i64_max_z

let parse_ext s =
  match s with
  | "nan" -> ENan
  | "-inf" -> ENegInf
  | "+inf" -> EPosInf
  | _ -> EFin (Z.of_string s)

let fmt_ext = function
  | ENan -> "nan"
  | ENegInf -> "-inf"
  | EPosInf -> "+inf"
  | EFin x -> Z.to_string x

let to_model = function
  | ENan -> Model.INaN
  | ENegInf -> Model.IMinusInf
  | EPosInf -> Model.IPlusInf
  | EFin x -> Model.INum (mz_of_z x)

let of_model = function
  | Model.INaN -> ENan
  | Model.IMinusInf -> ENegInf
  | Model.IPlusInf -> EPosInf
  | Model.INum x -> EFin (z_of_mz x)

let sgn = function ENan -> 0 | ENegInf -> -1 | EPosInf -> 1 | EFin x -> Z.sign x
let inf_of_sign s = if s > 0 then EPosInf else if s < 0 then ENegInf else ENan

(* the property's predicate: exact result on the extended integers ... *)
let exact op a b =
  match (op, a, b) with
  | _, ENan, _ | _, _, ENan -> ENan
  | "add", EFin x, EFin y -> EFin (Z.add x y)
  | "sub", EFin x, EFin y -> EFin (Z.sub x y)
  | "mul", EFin x, EFin y -> EFin (Z.mul x y)
  | "div", EFin x, EFin y ->
    if Z.sign y = 0 then inf_of_sign (Z.sign x) (* x/0 = +-inf by the sign of x, 0/0 = NaN *)
    else EFin (Z.div x y) (* Zarith: truncation toward zero *)
  | "add", _, _ ->
    (match (a, b) with
    | EPosInf, ENegInf | ENegInf, EPosInf -> ENan
    | EPosInf, _ | _, EPosInf -> EPosInf
    | _ -> ENegInf)
  | "sub", _, _ ->
    (match (a, b) with
    | EPosInf, EPosInf | ENegInf, ENegInf -> ENan
    | EPosInf, _ | _, ENegInf -> EPosInf
    | _ -> ENegInf)
  | "mul", _, _ -> inf_of_sign (sgn a * sgn b) (* 0 * inf = NaN *)
  | "div", EFin _, _ -> EFin Z.zero (* finite / inf *)
  | "div", _, EFin y -> inf_of_sign (sgn a * if Z.sign y < 0 then -1 else 1)
  | "div", _, _ -> ENan (* inf / inf *)
  | _ -> failwith ("exact: op " ^ op)

(* ... saturated to 64 bits *)
let saturate = function
  | EFin x when not (in_range x) -> inf_of_sign (Z.sign x)
  | v -> v

let ext_compare a b : string =
  match (a, b) with
  | ENan, ENan -> "eq"
  | ENan, _ | _, ENan -> "none"
  | _ ->
    let rank = function ENegInf -> (-1, Z.zero) | EPosInf -> (1, Z.zero) | EFin x -> (0, x) | ENan -> (0, Z.zero) in
    let (ta, za), (tb, zb) = (rank a, rank b) in
    let c = if ta <> tb then compare ta tb else Z.compare za zb in
    if c < 0 then "lt" else if c > 0 then "gt" else "eq"

let ext_equal a b =
  match (a, b) with
  | ENan, ENan | ENegInf, ENegInf | EPosInf, EPosInf -> true
  | EFin x, EFin y -> Z.equal x y
  | _ -> false

let fmt_cmp = function
  | None -> "none"
  | Some Model.Lt -> "lt"
  | Some Model.Eq -> "eq"
  | Some Model.Gt -> "gt"

let fmt_bool b = if b then "1" else "0"

(* returns (property value, model value, spec-layer value option) as strings *)
let eval_i64 (toks : string list) : string * string * string option =
  let a = parse_ext (List.nth toks 1) in
  let ma = to_model a in
  let b () = parse_ext (List.nth toks 2) in
  let chk x = if not (Model.wfb (to_model x)) then failwith "operand outside the i64 range" in
  chk a;
  match List.hd toks with
  | ("add" | "sub" | "mul" | "div") as op ->
    let b = b () in
    chk b;
    let mb = to_model b in
    let ex = exact op a b in
    let p = saturate ex in
    (match ex with EFin x when not (in_range x) -> stat "i64_saturated" 1 | ENan -> stat "i64_nan_result" 1 | _ -> ());
    let m, s =
      match op with
      | "add" -> (Model.i64_add ma mb, Model.i64_spec_add ma mb)
      | "sub" -> (Model.i64_sub ma mb, Model.i64_spec_sub ma mb)
      | "mul" -> (Model.i64_mul ma mb, Model.i64_spec_mul ma mb)
      | _ -> (Model.i64_div ma mb, Model.i64_spec_div ma mb)
    in
    if not (Model.wfb m) then failwith "model result outside the i64 range";
    (fmt_ext p, fmt_ext (of_model m), Some (fmt_ext (of_model s)))
  | "cmp" ->
    let b = b () in
    chk b;
    let mb = to_model b in
    (ext_compare a b, fmt_cmp (Model.i64_partial_cmp ma mb), Some (fmt_cmp (Model.ext_cmp ma mb)))
  | "eq" ->
    let b = b () in
    chk b;
    (fmt_bool (ext_equal a b), fmt_bool (Model.i64_eqb ma (to_model b)), None)
  | "zero" -> (fmt_bool (match a with EFin x -> Z.sign x = 0 | _ -> false), fmt_bool (Model.i64_is_zero ma), None)
  | "one" -> (fmt_bool (match a with EFin x -> Z.equal x Z.one | _ -> false), fmt_bool (Model.i64_is_one ma), None)
  | "nan" -> (fmt_bool (ext_equal a ENan), fmt_bool (Model.i64_is_nan ma), None)
  | o -> failwith ("unknown i64 op " ^ o)

let const_i64 k =
  match k with
  | "0" -> ("0", fmt_ext (of_model Model.i64_zero))
  | "1" -> ("1", fmt_ext (of_model Model.i64_one))
  | _ -> ("nan", fmt_ext (of_model Model.i64_nan))

(* ------------------------------------------------------------------ F64 *)

let hex_of_z (x : Z.t) = Z.format "%016x" x
let z_of_hex (s : string) = Z.of_string ("0x" ^ s)
let nan_bits = z_of_hex "7ff8000000000000"
let negzero_bits = z_of_hex "8000000000000000"
let exp_mask = z_of_hex "7ff0000000000000"
let abs_mask = z_of_hex "7fffffffffffffff"

let is_nan_pattern (x : Z.t) = Z.gt (Z.logand x abs_mask) exp_mask
let is_normal_pattern (x : Z.t) = (not (Z.equal x negzero_bits)) && ((not (is_nan_pattern x)) || Z.equal x nan_bits)

(* operands: F64::from(f64::from_bits(pattern)) *)
let norm_cache : (string, Model.z) Hashtbl.t = Hashtbl.create 4096
let operand (s : string) : Model.z =
  match Hashtbl.find_opt norm_cache s with
  | Some v -> v
  | None ->
    if Hashtbl.length norm_cache > 20000 then Hashtbl.reset norm_cache;
    let v = Model.f64_from_bits (mz_of_z (z_of_hex s)) in
    Hashtbl.replace norm_cache s v;
    v

(* third opinion: OCaml's doubles *)
let native_norm_f (f : float) : float =
  if Float.is_nan f then Float.nan else if Int64.bits_of_float f = Int64.min_int then 0.0 else f
let native_norm (f : float) : string =
  if Float.is_nan f then "7ff8000000000000" else Printf.sprintf "%016Lx" (Int64.bits_of_float (native_norm_f f))
let native_of_hex s = Int64.float_of_bits (Int64.of_string ("0x" ^ s))

let native_f64 (toks : string list) : string option =
  let nn s = native_norm_f (native_of_hex s) in
  try
    let a = nn (List.nth toks 1) in
    match List.hd toks with
    | "add" -> Some (native_norm (a +. nn (List.nth toks 2)))
    | "sub" -> Some (native_norm (a -. nn (List.nth toks 2)))
    | "mul" -> Some (native_norm (a *. nn (List.nth toks 2)))
    | "div" -> Some (native_norm (a /. nn (List.nth toks 2)))
    | "from" -> Some (native_norm a)
    | "cmp" ->
      let b = nn (List.nth toks 2) in
      Some
        (if Float.is_nan a && Float.is_nan b then "eq"
         else if Float.is_nan a || Float.is_nan b then "none"
         else if a < b then "lt"
         else if a > b then "gt"
         else "eq")
    | _ -> None
  with _ -> None

(* returns (model value, is the result a bit pattern that must be normalised) *)
let eval_f64 (toks : string list) : string * bool =
  let a = operand (List.nth toks 1) in
  let b () = operand (List.nth toks 2) in
  let h x = hex_of_z (z_of_mz x) in
  match List.hd toks with
  | "add" -> (h (Model.f64_add a (b ())), true)
  | "sub" -> (h (Model.f64_sub a (b ())), true)
  | "mul" -> (h (Model.f64_mul a (b ())), true)
  | "div" -> (h (Model.f64_div a (b ())), true)
  | "from" -> (h a, true)
  | "cmp" -> (fmt_cmp (Model.f64_partial_cmp a (b ())), false)
  | "eq" -> (fmt_bool (Model.f64_eqb a (b ())), false)
  | "zero" -> (fmt_bool (Model.f64_is_zero a), false)
  | "one" -> (fmt_bool (Model.f64_is_one a), false)
  | "nan" -> (fmt_bool (Model.f64_is_nan a), false)
  | o -> failwith ("unknown f64 op " ^ o)

let const_f64 k =
  let h x = hex_of_z (z_of_mz x) in
  match k with
  | "0" -> ("0000000000000000", h Model.f64_zero)
  | "1" -> ("3ff0000000000000", h Model.f64_one)
  | _ -> ("7ff8000000000000", h Model.f64_nan)

(* ------------------------------------------------------------------ main *)

let () =
  iter_cases stdin (fun c ->
      let ty = match param c "ty" with Some t -> t | None -> "i64" in
      let bad = ref false in
      List.iteri
        (fun i l ->
          if not !bad then
            if l = "HANG" then (
              bad := true;
              verdict_bad c i "prop" "implementation did not terminate (watchdog)")
            else if String.length l >= 5 && (String.sub l 0 5 = "PANIC" || String.sub l 0 5 = "CRASH") then (
              bad := true;
              verdict_bad c i "prop" ("implementation panicked: " ^ l))
            else
              let ops, res = split_arrow l in
              let toks = split_ws ops in
              let op = List.hd toks in
              stat "evals" 1;
              stat ("evals_" ^ ty) 1;
              stat (ty ^ "_" ^ op) 1;
              let fail kind msg =
                bad := true;
                verdict_bad c i kind (Printf.sprintf "ty=%s op=[%s] impl=[%s] %s" ty ops res msg)
              in
              try
                if op = "const" then (
                  let p, m = if ty = "i64" then const_i64 (List.nth toks 1) else const_f64 (List.nth toks 1) in
                  if res <> p then fail "prop" (Printf.sprintf "expected=[%s]" p)
                  else if m <> p then fail "corr" (Printf.sprintf "model=[%s]" m))
                else if ty = "i64" then (
                  let p, m, s = eval_i64 toks in
                  if res <> p then fail "prop" (Printf.sprintf "exact-saturated=[%s] model=[%s]" p m)
                  else if m <> res then fail "corr" (Printf.sprintf "model=[%s] exact-saturated=[%s]" m p)
                  else
                    match s with
                    | Some s when s <> p -> fail "corr" (Printf.sprintf "coq-spec-layer=[%s] exact-saturated=[%s]" s p)
                    | _ -> ())
                else
                  let m, is_pattern = eval_f64 toks in
                  if is_pattern then (
                    let rz = try z_of_hex res with _ -> Z.minus_one in
                    if Z.sign rz < 0 || not (is_normal_pattern rz) then fail "prop" "result is not a normalised bit pattern (NaN payload or -0)"
                    else if is_nan_pattern rz then stat "f64_nan_result" 1
                    else if Z.equal (Z.logand rz abs_mask) exp_mask then stat "f64_inf_result" 1
                    else if Z.sign rz = 0 then stat "f64_zero_result" 1
                    else if Z.lt (Z.logand rz abs_mask) (z_of_hex "0010000000000000") then stat "f64_subnormal_result" 1);
                  if (not !bad) && m <> res then
                    match native_f64 toks with
                    | Some n when n = res -> fail "corr" (Printf.sprintf "flocq-model=[%s] but OCaml's double arithmetic agrees with the implementation" m)
                    | Some n -> fail "prop" (Printf.sprintf "flocq-model=[%s] ocaml-double=[%s]" m n)
                    | None -> fail "prop" (Printf.sprintf "model=[%s]" m)
              with Failure msg -> fail "corr" ("driver: " ^ msg))
        c.lines;
      stat "cases" 1;
      if not !bad then verdict_ok c);
  dump_stats ()
