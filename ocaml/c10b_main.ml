(* C10, function level: the extracted model of the MTBDD apply algorithms
   (coq/DD/ApplyMtbdd.v: mt_apply_bin, mt_apply_ite, mt_restrict, mt_const, mt_var, mt_eval)
   against the real MTBDD<I64> managers.

   Reads the trace of harness/src/bin/h_dd.rs (cases with kind=mtbdd; other kinds are skipped).
   Every snapshot is lifted into the extracted [Model.snap]; the terminal table is re-coded with the
   model's own value coding [Model.code] (the shared parser interns value strings).  On every
   snapshot the hypothesis of the theorems is evaluated ([Model.mt_ok_b]).  For every
   ADD/SUB/MUL/DIV/MIN/MAX/ITE/RESTRICT/CONSTN/VAR the model is run with the real operand edges

   (pre)  on the snapshot taken immediately BEFORE the operation (available with snap=each): the
          model builds the result itself; the value table of its result (extracted interpreter on
          the model's table) must equal the value table of the real result handle in the next
          snapshot; if the model's result is a reference that already existed in the pre-state
          table and no collection/reordering happened in between, the real handle must be that
          very edge;
   (post) on the first snapshot AFTER the operation in which the operand and result handles are
          unchanged: the result function exists there, so (theorems C10_mt_*_lifts, last clause)
          the model must return exactly the real result edge and must not create anything.

   EVAL: the extracted [mt_eval] on the lifted snapshot must return the values the real
   [eval] returned for all 2^n assignments.
   RESTRICT: the cube is rebuilt by the model the way the harness builds it (product of x resp.
   1 - x); [Model.cube_lits] must recognise it (hypothesis [Cube] of the restrict theorems) with
   exactly the requested literals.

   Cases with kind=mtbddf (MTBDD<F64>; values are 16-digit hex bit patterns) are checked against the
   extracted Flocq model of the scalar operations (coq/Num/F64.v): on every snapshot the structural
   invariant [Model.wf_b] and canonicity over all handle pairs are evaluated with terminal values =
   NORMALISED patterns (two terminals that differ only in the sign of zero or a NaN payload are
   duplicates), and the RAW value table of every VT/CONSTN/VAR/ADD/SUB/MUL/DIV/MIN/MAX/ITE/RESTRICT
   result and every EVAL must be the pointwise extracted operation on the operands' raw tables (all
   results of the model are normalised patterns, so a -0.0 or a NaN with payload in a result is a
   violation of "NaN and signed zero normalised").

   Package C10f: the SAME edge-level replay (pre)/(post)/EVAL/RESTRICT is run for kind=mtbddf with the
   extracted generic function-level model instantiated for F64 (coq/DD/MtG.v at coq/DD/MtF64.v [f64_alg]:
   [Model.f64m_apply_bin], [f64m_apply_ite], [f64m_restrict], [f64m_const], [f64m_var], [f64m_eval],
   [f64m_cube_lits]).  Terminal values of the lifted snapshot are the RAW bit patterns; the hypothesis of
   the C10_f64_* theorems is evaluated on every snapshot ([Model.f64m_ok_b]: well-formed and every terminal
   value a normalised pattern; a stored -0.0 / second NaN pattern is reported as kind=prop).  The replay
   is written once ([replay_case]) over a record of the instance's operations ([inst]). *)
open Conv
open Dd_types

exception Fail of string

let gt_none (_ : Model.ref) (_ : Model.ref) = false
let gt_id (a : Model.ref) (b : Model.ref) =
  match a, b with
  | Model.RN x, Model.RN y -> Z.gt (z_of_pos x) (z_of_pos y)
  | Model.RN _, Model.RT _ -> true
  | Model.RT x, Model.RT y -> Z.gt (z_of_n x) (z_of_n y)
  | Model.RT _, Model.RN _ -> false

let ref_eq (a : Model.ref) (b : Model.ref) =
  Model.edge_eqb { Model.eref = a; Model.etag = false } { Model.eref = b; Model.etag = false }
let show_ref (r : Model.ref) = show_edge { Model.eref = r; Model.etag = false }

(* lifted snapshot with the model's terminal coding.  Node ids of the index-based manager start at
   2^25; they are shifted down by [base] (a per-snapshot constant) so that the positive-keyed node
   map of the model stays shallow; [orig] undoes the shift for comparisons between snapshots and
   for messages. *)
type lsnap = { ps : psnap; ms : Model.snap; base : Z.t; htab : (int, Model.ref) Hashtbl.t }

let shift_ref (d : Z.t) (r : Model.ref) : Model.ref =
  match r with
  | Model.RN p -> Model.RN (pos_of_z (Z.sub (z_of_pos p) d))
  | Model.RT _ -> r
let shift_edge d (e : Model.edge) = { e with Model.eref = shift_ref d e.Model.eref }
let orig (ls : lsnap) (r : Model.ref) : Model.ref = shift_ref (Z.neg ls.base) r

let relift_with (terms : (Model.n * Model.n) list) (ps : psnap) : lsnap =
  let s = ps.snap in
  let els = Model.PositiveMap.elements s.Model.s_nodes in
  let minid = List.fold_left (fun m (id, _) -> Z.min m (z_of_pos id)) (Z.of_int max_int) els in
  let base = if els = [] then Z.zero else Z.pred minid in
  let nodes =
    List.fold_left
      (fun m (id, nd) ->
        let nd' = { nd with Model.nchildren = List.map (shift_edge base) nd.Model.nchildren } in
        Model.PositiveMap.add (pos_of_z (Z.sub (z_of_pos id) base)) nd' m)
      Model.PositiveMap.empty els in
  let handles = List.map (fun (sl, e) -> (sl, shift_edge base e)) s.Model.s_handles in
  let htab = Hashtbl.create 64 in
  List.iter (fun (sl, e) -> Hashtbl.replace htab sl (shift_ref base e.Model.eref)) ps.handles;
  { ps; base; htab; ms = { s with Model.s_terms = terms; Model.s_nodes = nodes; Model.s_handles = handles } }

(* value table of a reference of table [s] (variable order [l2v]) as value strings *)
let vtab_with (val_str : Model.n -> string) (s : Model.snap) (l2v : int array) (r : Model.ref) : string array =
  let n = Array.length l2v in
  Array.init (1 lsl n) (fun a ->
      let c (lvl : Model.nat) : Model.nat =
        let l = int_of_nat lvl in
        if l < n && (a lsr l2v.(l)) land 1 = 1 then Model.O else Model.S Model.O in
      match Model.sem_edge s { Model.eref = r; Model.etag = false } c with
      | Some v -> val_str v
      | None -> raise (Fail (Printf.sprintf "interpretation of %s undefined" (show_ref r))))

let show_tab (t : string array) = String.concat " " (Array.to_list t)

let ref_exists (s : Model.snap) (r : Model.ref) : bool =
  match r with
  | Model.RN id -> Model.find_node s id <> None
  | Model.RT t -> Model.term_val s t <> None

(* the model returns the table itself when it creates nothing ([mk_node]/[get_terminal] on a hit) *)
let unchanged (s : Model.snap) (s' : Model.snap) =
  s'.Model.s_nodes == s.Model.s_nodes && s'.Model.s_terms == s.Model.s_terms

let strip = function Some ((s', _), r) -> Some (s', r) | None -> None

(* one instance of the function-level model: the operations of the extracted model for one terminal
   type, on operator names / value strings of the trace.  [k] selects a cache instance / operand order
   (the theorems hold for all of them). *)
type inst = {
  pfx : string;                                   (* prefix of the statistics keys *)
  terms_of : psnap -> string -> (Model.n * Model.n) list;   (* terminal table in the model's coding *)
  val_str : Model.n -> string;                    (* value code -> value string of the trace *)
  ok_b : Model.snap -> bool;                      (* hypothesis of the theorems *)
  ok_kind : string;                               (* verdict kind when [ok_b] is false *)
  ok_msg : string;
  bin : int -> Model.snap -> string -> Model.ref -> Model.ref -> (Model.snap * Model.ref) option;
  ite : int -> Model.snap -> Model.ref -> Model.ref -> Model.ref -> (Model.snap * Model.ref) option;
  restrict : int -> Model.snap -> Model.ref -> Model.ref -> (Model.snap * Model.ref) option;
  const : Model.snap -> string -> Model.snap * Model.ref;
  one : string;                                   (* the value 1 (cube construction) *)
  var : Model.snap -> int -> (Model.snap * Model.ref) option;
  eval : Model.snap -> Model.ref -> (Model.nat * bool) list -> string option;
  cube_lits : Model.nat -> Model.snap -> Model.ref -> (Model.nat * bool) list option;
}

let fuel_of (s : Model.snap) = nat (List.length s.Model.s_l2v + 1)

(* ---- MTBDD<I64>: coq/DD/ApplyMtbdd.v ---- *)
let mop_of = function
  | "ADD" -> Model.MAdd | "SUB" -> Model.MSub | "MUL" -> Model.MMul
  | "DIV" -> Model.MDiv | "MIN" -> Model.MMin | "MAX" -> Model.MMax
  | o -> failwith ("mop " ^ o)

let i64_inst : inst = {
  pfx = "c10b_";
  terms_of = (fun ps _ -> List.map (fun (t, c) -> (t, Model.code (mt_val (int_of_n c)))) ps.snap.Model.s_terms);
  val_str = (fun v -> string_of_i64v (Model.decode v));
  ok_b = Model.mt_ok_b;
  ok_kind = "corr";
  ok_msg = "mt_ok_b false on a snapshot (hypothesis MtOK of the C10_mt theorems)";
  bin = (fun k s op a b ->
      let fuel = fuel_of s and op = mop_of op in
      match k mod 3 with
      | 0 -> strip (Model.mt_apply_bin gt_none Model.ac_get Model.ac_add fuel s [] op a b)
      | 1 -> strip (Model.mt_apply_bin gt_id Model.ac_get Model.ac_add fuel s [] op a b)
      | _ -> strip (Model.mt_apply_bin gt_id Model.nc_get Model.nc_add fuel s () op a b));
  ite = (fun k s f g h ->
      let fuel = fuel_of s in
      if k mod 2 = 0 then strip (Model.mt_apply_ite Model.ac_get Model.ac_add fuel s [] f g h)
      else strip (Model.mt_apply_ite Model.nc_get Model.nc_add fuel s () f g h));
  restrict = (fun k s f vars ->
      let fuel = fuel_of s in
      if k mod 2 = 0 then strip (Model.mt_restrict Model.ac_get Model.ac_add fuel s [] f vars)
      else strip (Model.mt_restrict Model.nc_get Model.nc_add fuel s () f vars));
  const = (fun s v -> Model.mt_const s (i64v_of_string v));
  one = "1";
  var = (fun s v -> Model.mt_var s (nat v));
  eval = (fun s r args -> match Model.mt_eval s r args with Some x -> Some (string_of_i64v x) | None -> None);
  cube_lits = Model.cube_lits;
}

(* ---- MTBDD<F64>: coq/DD/MtG.v instantiated by coq/DD/MtF64.v; values = 16-digit hex bit patterns ---- *)
let z_of_hex (s : string) = Z.of_string ("0x" ^ s)
let hex_of_z (x : Z.t) = Z.format "%016x" x
let opcode_of = function
  | "ADD" -> 0 | "SUB" -> 1 | "MUL" -> 2 | "DIV" -> 3 | "MIN" -> 4 | "MAX" -> 5
  | o -> failwith ("opcode " ^ o)

(* PARSEC: the float a terminal description denotes ([impl ParseTagged for F64], terminal/f64.rs: the
   special spellings, otherwise [f64::from_str]); the driver's oracle is OCaml's [float_of_string] (only
   decimal texts are generated).  The VALUE of the type is that float passed through [F64::from]. *)
let f64_text_bits (s : string) : string =
  match s with
  | "nan" | "NaN" | "NAN" -> "7ff8000000000000"
  | "-∞" | "-inf" | "-infinity" | "-Inf" | "-Infinity" | "-INF" | "-INFINITY" | "MinusInf" -> "fff0000000000000"
  | "∞" | "inf" | "infinity" | "Inf" | "Infinity" | "INF" | "INFINITY" | "+∞" | "+inf" | "+infinity" | "+Inf"
  | "+Infinity" | "+INF" | "+INFINITY" | "PlusInf" -> "7ff0000000000000"
  | _ -> Printf.sprintf "%016Lx" (Int64.bits_of_float (float_of_string s))

let f64_inst : inst = {
  pfx = "c10b_f64m_";
  (* RAW patterns of the "T id v" pieces (the shared parser interns normalised values) *)
  terms_of = (fun _ body ->
      List.filter_map
        (fun piece ->
          match split_ws piece with
          | [ "T"; id; v ] -> Some (n_of_string id, n_of_z (z_of_hex v))
          | _ -> None)
        (split_bar body));
  val_str = (fun v -> hex_of_z (z_of_n v));
  ok_b = Model.f64m_ok_b;
  ok_kind = "prop";
  ok_msg = "prop=C10 mtbddf: f64m_ok_b false on a snapshot: the table is not well-formed or a terminal holds a pattern that is not normalised (-0.0 or a NaN other than 7ff8000000000000): hypothesis MtOK of the C10_f64 theorems, 'NaN and signed zero normalised'";
  bin = (fun k s op a b ->
      let fuel = fuel_of s and op = n_of_int (opcode_of op) in
      match k mod 3 with
      | 0 -> strip (Model.f64m_apply_bin gt_none Model.ac_get Model.ac_add fuel s [] op a b)
      | 1 -> strip (Model.f64m_apply_bin gt_id Model.ac_get Model.ac_add fuel s [] op a b)
      | _ -> strip (Model.f64m_apply_bin gt_id Model.nc_get Model.nc_add fuel s () op a b));
  ite = (fun k s f g h ->
      let fuel = fuel_of s in
      if k mod 2 = 0 then strip (Model.f64m_apply_ite Model.ac_get Model.ac_add fuel s [] f g h)
      else strip (Model.f64m_apply_ite Model.nc_get Model.nc_add fuel s () f g h));
  restrict = (fun k s f vars ->
      let fuel = fuel_of s in
      if k mod 2 = 0 then strip (Model.f64m_restrict Model.ac_get Model.ac_add fuel s [] f vars)
      else strip (Model.f64m_restrict Model.nc_get Model.nc_add fuel s () f vars));
  const = (fun s v -> Model.f64m_const s (mz_of_z (z_of_hex v)));     (* F64::from inside the model *)
  one = "3ff0000000000000";
  var = (fun s v -> Model.f64m_var s (nat v));
  eval = (fun s r args -> match Model.f64m_eval s r args with Some x -> Some (hex_of_z (z_of_n x)) | None -> None);
  cube_lits = Model.f64m_cube_lits;
}

(* the cube of RESTRICT, built as in the harness: acc = 1; for v = n-1 .. 0: acc = x_v * acc resp. (1 - x_v) * acc *)
let build_cube (ins : inst) (k : int) (s : Model.snap) (v2l : int array) (pos : int) (neg : int) : Model.snap * Model.ref =
  let n = Array.length v2l in
  let s, one = ins.const s ins.one in
  let st = ref s and acc = ref one in
  let need = function Some x -> x | None -> raise (Fail "model undefined while building the cube") in
  for v = n - 1 downto 0 do
    if (pos lsr v) land 1 = 1 then begin
      let s1, x = need (ins.var !st v) in
      let s2, a = need (ins.bin k s1 "MUL" x !acc) in
      st := s2; acc := a
    end else if (neg lsr v) land 1 = 1 then begin
      let s1, x = need (ins.var !st v) in
      let s2, nx = need (ins.bin k s1 "SUB" one x) in
      let s3, a = need (ins.bin k s2 "MUL" nx !acc) in
      st := s3; acc := a
    end
  done;
  (* hypothesis of the restrict theorems: the operand is a cube, with the requested literals *)
  let fuel = nat (n + 1) in
  let expect =
    List.sort compare
      (List.filter_map (fun v ->
           if (pos lsr v) land 1 = 1 then Some (v2l.(v), true)
           else if (neg lsr v) land 1 = 1 then Some (v2l.(v), false) else None)
         (List.init n (fun v -> v))) in
  (match ins.cube_lits fuel !st !acc with
   | None -> raise (Fail "cube_lits does not recognise the cube built from the literals")
   | Some l ->
     let got = List.map (fun (lv, b) -> (int_of_nat lv, b)) l in
     if got <> expect then raise (Fail "cube_lits returns other literals than requested"));
  stat (ins.pfx ^ "cubes") 1;
  (!st, !acc)

(* ---- MTBDD<F64>: pointwise check with the scalar model ------------------------------------ *)
let f64_memo : (string * string * string, string) Hashtbl.t = Hashtbl.create 1024
let f64_bin (op : string) (a : string) (b : string) : string =
  match Hashtbl.find_opt f64_memo (op, a, b) with
  | Some r -> r
  | None ->
    let f = match op with
      | "ADD" -> Model.f64_add | "SUB" -> Model.f64_sub | "MUL" -> Model.f64_mul
      | "DIV" -> Model.f64_div | "MIN" -> Model.f64_min | "MAX" -> Model.f64_max
      | o -> failwith ("f64 op " ^ o) in
    let r = hex_of_z (z_of_mz (f (mz_of_z (z_of_hex a)) (mz_of_z (z_of_hex b)))) in
    Hashtbl.replace f64_memo (op, a, b) r; r
let f64_from (a : string) : string = hex_of_z (z_of_mz (Model.f64_from_bits (mz_of_z (z_of_hex a))))
let f64_is_zero (a : string) : bool = Model.f64_is_zero (mz_of_z (z_of_hex a))
let f64_zero_hex = hex_of_z (z_of_mz Model.f64_zero)
let f64_one_hex = hex_of_z (z_of_mz Model.f64_one)

(* snapshot of an mtbddf manager: [nps] with normalised value codes (structure audits), raw value
   tables of all handles *)
type fsnap = { nps : psnap; rtab : (int, string array) Hashtbl.t; ntab : (int, vt) Hashtbl.t;
               rterms : (string * string) list }     (* terminal id, raw pattern *)

let flift (body : string) : fsnap =
  let nps = parse_snapshot "mtbddf" body in
  (* raw patterns: own interning, terminal id |-> index into [raws] *)
  let raws : (string, int) Hashtbl.t = Hashtbl.create 16 in
  let names : (int, string) Hashtbl.t = Hashtbl.create 16 in
  let terms = ref [] and rterms = ref [] in
  List.iter
    (fun piece ->
      match split_ws piece with
      | [ "T"; id; v ] ->
        let v = String.lowercase_ascii v in
        rterms := (id, v) :: !rterms;
        let c = (match Hashtbl.find_opt raws v with
            | Some c -> c
            | None -> let c = Hashtbl.length raws in Hashtbl.add raws v c; Hashtbl.add names c v; c) in
        terms := (n_of_string id, n_of_int c) :: !terms
      | _ -> ())
    (split_bar body);
  let rsnap = { nps.snap with Model.s_terms = List.rev !terms } in
  let rtab = Hashtbl.create 32 and ntab = Hashtbl.create 32 in
  List.iter
    (fun (slot, e) ->
      (match value_table { nps with snap = rsnap } e with
       | Some t -> Hashtbl.replace rtab slot (Array.map (fun c -> Hashtbl.find names c) t)
       | None -> raise (Fail (Printf.sprintf "handle h%d: interpretation undefined" slot)));
      (match value_table nps e with Some t -> Hashtbl.replace ntab slot t | None -> ()))
    nps.handles;
  { nps; rtab; ntab; rterms = List.rev !rterms }

(* one pending operation *)
type pend = {
  pstep : int; ptoks : string list; pres : string;
  ppre : lsnap option;                 (* snapshot taken immediately before the operation *)
  pops : (int * int) list;             (* operand slots with their version when the op was issued *)
  pdst : (int * int) option;           (* destination slot and its version after the op *)
}

type fpend = {
  fstep : int; ftoks : string list; fres : string;
  fpre : fsnap option; fops : (int * int) list; fdst : (int * int) option;
}

let process_f64 (c : case) : (int * string * string) option =
  let failed = ref None in
  let fail step msg =
    stat "c10b_f64_bad" 1;
    if !failed = None then failed := Some (step, "prop", "prop=C10 mtbddf: " ^ msg) in
  let versions : (int, int) Hashtbl.t = Hashtbl.create 32 in
  let epoch = ref 0 in
  let ver slot = (!epoch * 1000000) + (try Hashtbl.find versions slot with Not_found -> 0) in
  let bump slot = Hashtbl.replace versions slot (1 + try Hashtbl.find versions slot with Not_found -> 0) in
  let cur : fsnap option ref = ref None in
  let fresh = ref false in
  let pending : fpend list ref = ref [] in
  let audit (step : int) (fs : fsnap) =
    let s = fs.nps.snap in
    stat "c10b_f64_snapshots" 1;
    if not (Model.wf_b s) then begin
      (* two terminals with the same normalised value? *)
      let seen : (string, string * string) Hashtbl.t = Hashtbl.create 16 in
      let dup = ref None in
      List.iter
        (fun (id, v) ->
          let nv = f64_norm_hex v in
          match Hashtbl.find_opt seen nv with
          | Some (id0, v0) -> if !dup = None then dup := Some (id0, v0, id, v)
          | None -> Hashtbl.add seen nv (id, v))
        fs.rterms;
      match !dup with
      | Some (id0, v0, id, v) ->
        fail step (Printf.sprintf "terminals t%s = %s and t%s = %s carry the same value: a result was stored without the normalisation of NaN / signed zero (hash-consing of terminals broken)" id0 v0 id v)
      | None -> fail step "wf_b false on the snapshot (structure)"
    end;
    (* canonicity over the handles: equal (normalised) value tables <-> equal edges *)
    let by_tab : (vt, int * Model.edge) Hashtbl.t = Hashtbl.create 64 in
    List.iter
      (fun (slot, e) ->
        match Hashtbl.find_opt fs.ntab slot with
        | None -> ()
        | Some tb ->
          (match Hashtbl.find_opt by_tab tb with
           | Some (s0, e0) ->
             if not (Model.edge_eqb e0 e) then
               fail step (Printf.sprintf "handles h%d (%s) and h%d (%s) denote the same function [%s] but are different edges"
                            s0 (show_edge e0) slot (show_edge e)
                            (String.concat " " (Array.to_list (Hashtbl.find fs.rtab slot))))
           | None -> Hashtbl.add by_tab tb (slot, e)))
      fs.nps.handles in
  let resolve (post : fsnap) =
    let n = Array.length post.nps.l2v in
    let size = 1 lsl n in
    List.iter
      (fun p ->
        let what = String.concat " " p.ftoks in
        try
          let ops_valid = List.for_all (fun (sl, v) -> ver sl = v) p.fops in
          (* raw table of an operand as it was when the operation was issued *)
          let opnd (name : string) : string array =
            let sl = slot_of name in
            match p.fpre with
            | Some pre when pre.nps.l2v = post.nps.l2v && Hashtbl.mem pre.rtab sl -> Hashtbl.find pre.rtab sl
            | _ -> if ops_valid then Hashtbl.find post.rtab sl else raise Not_found in
          let expect (dst : int) (exp : string array) =
            let got = Hashtbl.find post.rtab dst in
            stat "c10b_f64_checked" 1;
            if got <> exp then
              raise (Fail (Printf.sprintf "%s: result values [%s], expected (extracted F64 model, pointwise) [%s]" what
                             (String.concat " " (Array.to_list got)) (String.concat " " (Array.to_list exp)))) in
          match p.ftoks, p.fdst with
          | [ "EVAL"; a ], _ ->
            (match split_ws p.fres with
             | "vt" :: nn :: vals when int_of_string nn = n ->
               let ta = opnd a in
               stat "c10b_f64_eval" 1;
               if Array.of_list (List.map String.lowercase_ascii vals) <> ta then
                 raise (Fail (Printf.sprintf "%s: eval returns [%s], the node-by-node interpretation is [%s]" what
                                (String.concat " " vals) (String.concat " " (Array.to_list ta))))
             | _ -> ())
          | _, Some (dslot, dver) when ver dslot = dver ->
            (match p.ftoks with
             | [ ("ADD" | "SUB" | "MUL" | "DIV" | "MIN" | "MAX") as op; _; a; b ] ->
               let ta = opnd a and tb = opnd b in
               expect dslot (Array.init size (fun i -> f64_bin op ta.(i) tb.(i)))
             | [ "ITE"; _; f; g; h ] ->
               let tf = opnd f and tg = opnd g and th = opnd h in
               expect dslot (Array.init size (fun i -> if f64_is_zero tf.(i) then th.(i) else tg.(i)))
             | [ "RESTRICT"; _; a; pos; neg ] ->
               let ta = opnd a in
               let pos = int_of_string pos and neg = int_of_string neg in
               expect dslot (Array.init size (fun i -> ta.((i lor pos) land lnot neg)))
             | [ "CONSTN"; _; v ] -> expect dslot (Array.make size (f64_from v))
             | [ "PARSEC"; _; v ] -> expect dslot (Array.make size (f64_from (f64_text_bits v)))
             | [ "VAR"; _; v ] ->
               let v = int_of_string v in
               expect dslot (Array.init size (fun i -> if (i lsr v) land 1 = 1 then f64_one_hex else f64_zero_hex))
             | "VT" :: _ :: nv :: vals ->
               let nv = int_of_string nv in
               let vals = Array.of_list (List.map f64_from vals) in
               if Array.length vals = 1 lsl nv && nv <= n then
                 expect dslot (Array.init size (fun i -> vals.(i land ((1 lsl nv) - 1))))
             | _ -> ())
          | _ -> stat "c10b_f64_unresolved" 1
        with
        | Fail m -> fail p.fstep m
        | Not_found -> stat "c10b_f64_unresolved" 1)
      (List.rev !pending);
    pending := [] in
  List.iteri
    (fun i l ->
      if l = "HANG" || starts_with l "PANIC" || starts_with l "CRASH" then
        fail i ("implementation panicked/hung: " ^ l)
      else begin
        let ops, res = split_arrow l in
        let toks = split_ws ops in
        match toks with
        | [ "SNAP" ] ->
          (try
             let fs = flift res in
             audit i fs; resolve fs; cur := Some fs; fresh := true
           with
           | Failure m -> fail i ("driver: " ^ m)
           | Fail m -> fail i m)
        | _ when starts_with res "err" -> ()
        | [] -> ()
        | op :: rest ->
          let pre = if !fresh then !cur else None in
          let names =
            (match toks with
             | [ ("ADD" | "SUB" | "MUL" | "DIV" | "MIN" | "MAX"); _; a; b ] -> [ a; b ]
             | [ "ITE"; _; f; g; h ] -> [ f; g; h ]
             | [ "RESTRICT"; _; a; _; _ ] -> [ a ]
             | [ "EVAL"; a ] -> [ a ]
             | _ -> []) in
          (match op, rest with
           | ("ADD" | "SUB" | "MUL" | "DIV" | "MIN" | "MAX" | "ITE" | "RESTRICT" | "CONSTN" | "PARSEC" | "VAR" | "VT"), dst :: _ ->
             let fops = List.map (fun a -> (slot_of a, ver (slot_of a))) names in
             bump (slot_of dst);
             pending := { fstep = i; ftoks = toks; fres = res; fpre = pre; fops;
                          fdst = Some (slot_of dst, ver (slot_of dst)) } :: !pending
           | "EVAL", [ a ] ->
             pending := { fstep = i; ftoks = toks; fres = res; fpre = pre;
                          fops = [ (slot_of a, ver (slot_of a)) ]; fdst = None } :: !pending
           | "CLONE", dst :: _ -> bump (slot_of dst)
           | ("DROP" | "DROPT"), [ a ] -> bump (slot_of a)
           | "DROPALL", _ -> incr epoch
           | _ -> ());
          fresh := false
      end)
    c.lines;
  stat "c10b_f64_cases" 1;
  !failed

(* edge-level replay of the extracted function-level model [ins] on the trace of one case; returns the
   first failure (step, verdict kind, message) *)
let replay_case (ins : inst) (kname : string) (c : case) : (int * string * string) option =
  let st k = stat (ins.pfx ^ k) in
  let vtab = vtab_with ins.val_str in
  let failed = ref None in
  let failk step kind msg =
    st "bad" 1;
    if !failed = None then failed := Some (step, kind, msg) in
  let fail step msg = failk step "corr" ("prop=C10 model: " ^ msg) in
  let versions : (int, int) Hashtbl.t = Hashtbl.create 32 in
  let epoch = ref 0 in
  let ver slot = (!epoch * 1000000) + (try Hashtbl.find versions slot with Not_found -> 0) in
  let bump slot = Hashtbl.replace versions slot (1 + try Hashtbl.find versions slot with Not_found -> 0) in
  let cur : lsnap option ref = ref None in
  let fresh = ref false in
  let pending : pend list ref = ref [] in

  (* run the model for operation [p] on table [ls] with the operand edges [get slot];
     returns the table before the (main) operation, the result table and the result *)
  let run_op (p : pend) (ls : lsnap) (get : string -> Model.ref) : (Model.snap * Model.snap * Model.ref) option =
    let s = ls.ms in
    let k = p.pstep in
    match p.ptoks with
    | [ ("ADD" | "SUB" | "MUL" | "DIV" | "MIN" | "MAX") as op; _; a; b ] ->
      (match ins.bin k s op (get a) (get b) with Some (s', r) -> Some (s, s', r) | None -> None)
    | [ "ITE"; _; f; g; h ] ->
      (match ins.ite k s (get f) (get g) (get h) with Some (s', r) -> Some (s, s', r) | None -> None)
    | [ "RESTRICT"; _; a; pos; neg ] ->
      let s1, cube = build_cube ins k s ls.ps.v2l (int_of_string pos) (int_of_string neg) in
      (match ins.restrict k s1 (get a) cube with Some (s', r) -> Some (s1, s', r) | None -> None)
    | [ "CONSTN"; _; v ] -> let s', r = ins.const s v in Some (s, s', r)
    | [ "PARSEC"; _; v ] when kname = "mtbddf" -> let s', r = ins.const s (f64_text_bits v) in Some (s, s', r)
    | [ "VAR"; _; v ] ->
      (match ins.var s (int_of_string v) with Some (s', r) -> Some (s, s', r) | None -> None)
    | _ -> None in
  let operand_names (toks : string list) : string list =
    match toks with
    | [ ("ADD" | "SUB" | "MUL" | "DIV" | "MIN" | "MAX"); _; a; b ] -> [ a; b ]
    | [ "ITE"; _; f; g; h ] -> [ f; g; h ]
    | [ "RESTRICT"; _; a; _; _ ] -> [ a ]
    | [ "EVAL"; a ] -> [ a ]
    | _ -> [] in

  let resolve (post : lsnap) =
    List.iter
      (fun p ->
        let what = String.concat " " p.ptoks in
        try
          let handle (ls : lsnap) (name : string) : Model.ref = Hashtbl.find ls.htab (slot_of name) in
          match p.ptoks, p.pdst with
          | [ "EVAL"; a ], _ ->
            if List.for_all (fun (sl, v) -> ver sl = v) p.pops then begin
              match split_ws p.pres with
              | "vt" :: nn :: vals when int_of_string nn = Array.length post.ps.l2v ->
                let n = int_of_string nn in
                let r = handle post a in
                st "eval" 1;
                List.iteri
                  (fun idx impl ->
                    let args = List.init n (fun v -> (nat v, (idx lsr v) land 1 = 1)) in
                    match ins.eval post.ms r args with
                    | Some x ->
                      if x <> String.lowercase_ascii impl then
                        raise (Fail (Printf.sprintf "%s: eval at assignment %d is %s, the model's mt_eval gives %s" what idx impl x))
                    | None -> raise (Fail (what ^ ": the model's mt_eval is undefined")))
                  vals
              | _ -> ()
            end
          | _, Some (dslot, dver) when ver dslot = dver ->
            let dst_edge = Hashtbl.find post.htab dslot in
            let real_tab = vtab post.ms post.ps.l2v dst_edge in
            (* (pre) the model builds the result on the pre-state table *)
            (match p.ppre with
             | Some pre when pre.ps.l2v = post.ps.l2v ->
               (match run_op p pre (handle pre) with
                | None -> raise (Fail (what ^ ": the model is undefined on the pre-state where the implementation returned a result"))
                | Some (_, s', r) ->
                  st "runs_pre" 1;
                  if not (unchanged pre.ms s') then st "pre_created" 1;
                  let mt = vtab s' pre.ps.l2v r in
                  if mt <> real_tab then
                    raise (Fail (Printf.sprintf "%s: model result values [%s], implementation [%s]" what (show_tab mt) (show_tab real_tab)));
                  if ref_exists pre.ms r && pre.ps.gc = post.ps.gc && pre.ps.reorder = post.ps.reorder then begin
                    st "pre_edge_cmp" 1;
                    if not (ref_eq (orig pre r) (orig post dst_edge)) then
                      raise (Fail (Printf.sprintf "%s: the model finds the existing edge %s, the implementation returned %s" what (show_ref (orig pre r)) (show_ref (orig post dst_edge))))
                  end)
             | _ -> ());
            (* (post) the result exists: the model must return that very edge and create nothing *)
            if List.for_all (fun (sl, v) -> ver sl = v) p.pops then begin
              match run_op p post (handle post) with
              | None -> raise (Fail (what ^ ": the model is undefined on the post-state"))
              | Some (s0, s', r) ->
                st "runs_post" 1;
                if not (ref_eq r dst_edge) then
                  raise (Fail (Printf.sprintf "%s: on the table that holds the result the model returns %s, the implementation's handle is %s" what (show_ref (orig post r)) (show_ref (orig post dst_edge))));
                if not (unchanged s0 s') then
                  raise (Fail (what ^ ": the model creates nodes/terminals although the result exists"))
            end
          | _ -> st "unresolved" 1
        with
        | Fail m -> fail p.pstep m
        | Not_found -> st "unresolved" 1)
      (List.rev !pending);
    pending := [] in

  List.iteri
    (fun i l ->
      if l = "HANG" || starts_with l "PANIC" || starts_with l "CRASH" then ()
      else begin
        let ops, res = split_arrow l in
        let toks = split_ws ops in
        match toks with
        | [ "SNAP" ] ->
          (try
             let ps = parse_snapshot kname res in
             let ls = relift_with (ins.terms_of ps res) ps in
             st "snapshots" 1;
             if not (ins.ok_b ls.ms) then (failk i ins.ok_kind ins.ok_msg; pending := [])
             else resolve ls;
             cur := Some ls; fresh := true
           with Failure m -> fail i ("driver: " ^ m))
        | _ when starts_with res "err" -> ()      (* skip / oom: nothing assigned, nothing executed *)
        | [] -> ()
        | op :: rest ->
          let pre = if !fresh then !cur else None in
          (match op, rest with
           | ("ADD" | "SUB" | "MUL" | "DIV" | "MIN" | "MAX" | "ITE" | "RESTRICT" | "CONSTN" | "VAR"), dst :: _
           | "PARSEC", dst :: _ when kname = "mtbddf" ->
             let pops = List.map (fun a -> (slot_of a, ver (slot_of a))) (operand_names toks) in
             bump (slot_of dst);
             pending := { pstep = i; ptoks = toks; pres = res; ppre = pre; pops;
                          pdst = Some (slot_of dst, ver (slot_of dst)) } :: !pending
           | "EVAL", [ a ] ->
             pending := { pstep = i; ptoks = toks; pres = res; ppre = pre;
                          pops = [ (slot_of a, ver (slot_of a)) ]; pdst = None } :: !pending
           | ("VT" | "CLONE" | "PARSEC"), dst :: _ -> bump (slot_of dst)
           | ("DROP" | "DROPT"), [ a ] -> bump (slot_of a)
           | "DROPALL", _ -> incr epoch
           | _ -> ());
          fresh := false
      end)
    c.lines;
  st "cases" 1;
  !failed

let () =
  iter_cases stdin (fun c ->
      let kname = match param c "kind" with Some k -> k | None -> "bdd" in
      let res =
        if kname = "mtbddf" then begin
          (* the property's own predicate first (pointwise scalar model, structure audits), then the
             function-level model at edge level *)
          match process_f64 c with
          | Some f -> Some f
          | None -> replay_case f64_inst kname c
        end
        else if kname = "mtbdd" then replay_case i64_inst kname c
        else None in
      match res with
      | None -> verdict_ok c
      | Some (step, kind, msg) -> verdict_bad c step kind msg);
  dump_stats ()
