(* C11 driver: reads the trace of h_tdd (real TDD manager, two variables) and
   recomputes every line
     - with the extracted fixed tables / ite3 pointwise on the operand value
       tables (kind=prop: the property's own predicate), and
     - with the extracted algorithmic model (terminal_bin / apply_bin /
       apply_ite_rec / apply_not / cofactors / eval on reduced ordered trees;
       kind=corr: value table, node structure, handle equality). *)
open Conv

let tri_of_char = function
  | 'F' -> Model.TF
  | 'U' -> Model.TU
  | 'T' -> Model.TT
  | c -> failwith (Printf.sprintf "bad table letter %c" c)

let char_of_tri = function Model.TF -> 'F' | Model.TU -> 'U' | Model.TT -> 'T'
let idx = function Model.TF -> 0 | Model.TU -> 1 | Model.TT -> 2
let vals = [| Model.TF; Model.TU; Model.TT |]

type tab = Model.tri array

let parse_tab (s : string) : tab =
  if String.length s <> 9 then failwith ("bad table " ^ s);
  Array.init 9 (fun i -> tri_of_char s.[i])

let tab_str (t : tab) : string = String.init 9 (fun i -> char_of_tri t.(i))
let tab_map f (a : tab) : tab = Array.map f a
let tab_map2 f (a : tab) (b : tab) : tab = Array.init 9 (fun i -> f a.(i) b.(i))
let tab_map3 f (a : tab) (b : tab) (c : tab) : tab = Array.init 9 (fun i -> f a.(i) b.(i) c.(i))

let binop_of_string = function
  | "and" -> Model.And
  | "or" -> Model.Or
  | "nand" -> Model.Nand
  | "nor" -> Model.Nor
  | "xor" -> Model.Xor
  | "equiv" -> Model.Equiv
  | "imp" -> Model.Imp
  | "imp_strict" -> Model.ImpStrict
  | o -> failwith ("unknown operator " ^ o)

let binops = [ "and"; "or"; "nand"; "nor"; "xor"; "equiv"; "imp"; "imp_strict" ]

(* levels of the logical variables x0, x1 (order=0: 0,1; order=1: 1,0) *)
type env = { p0 : int; p1 : int }

let n0 = nat_of_int 0
let n1 = nat_of_int 1
let nat_lvl i = if i = 0 then n0 else n1

(* the three-valued function named by a table, as a function of the model's assignments *)
let fn_of_tab (e : env) (t : tab) : Model.tfun =
 fun a -> t.((3 * idx (a (nat_lvl e.p0))) + idx (a (nat_lvl e.p1)))

(* the reduced ordered diagram of a table (extracted canonical construction) *)
let model_of_tab (e : env) (t : tab) : Model.tdd = Model.tdd_of_fun [ n0; n1 ] (fn_of_tab e t) (fun _ -> Model.TF)

exception Model_mismatch of string

(* value table of a model diagram through the extracted eval (complete assignments,
   both argument orders, abstract and bit-packed choices vector) *)
let tab_of_model (e : env) (f : Model.tdd) : tab =
  Array.init 9 (fun i ->
      let v0 = vals.(i / 3) and v1 = vals.(i mod 3) in
      let a0 = (nat_lvl e.p0, v0) and a1 = (nat_lvl e.p1, v1) in
      let r1 = Model.eval f [ a0; a1 ] in
      let r2 = Model.eval f [ a1; a0 ] in
      let r3 = Model.eval_packed (nat_of_int 2) f [ a0; a1 ] in
      let r4 = Model.sem f (fun l -> if int_of_nat l = e.p0 then v0 else v1) in
      if r1 <> r2 || r1 <> r3 || r1 <> r4 then raise (Model_mismatch "model eval / eval_packed / sem disagree");
      r1)

let rec struct_str (f : Model.tdd) : string =
  match f with
  | Model.Leaf v -> String.make 1 (char_of_tri v)
  | Model.Node (l, t, u, e) ->
    Printf.sprintf "(%d,%s,%s,%s)" (int_of_nat l) (struct_str t) (struct_str u) (struct_str e)

let get_some what = function Some x -> x | None -> raise (Model_mismatch ("model returned None (fuel / unreachable state) in " ^ what))

(* restriction of a table w.r.t. logical variable i to value index v *)
let restrict_tab (t : tab) (i : int) (v : int) : tab =
  Array.init 9 (fun k ->
      let i0 = k / 3 and i1 = k mod 3 in
      if i = 0 then t.((3 * v) + i1) else t.((3 * i0) + v))

let depends (t : tab) (i : int) : bool =
  let r0 = restrict_tab t i 0 in
  restrict_tab t i 1 <> r0 || restrict_tab t i 2 <> r0

(* the top variable of the function under the order of the case: the logical variable at
   the smallest level on which the function depends *)
let top_var (e : env) (t : tab) : int option =
  let first = if e.p0 = 0 then 0 else 1 in
  let second = 1 - first in
  if depends t first then Some first else if depends t second then Some second else None

type fail = Prop of string | Corr of string

exception Fail of fail

let prop fmt = Printf.ksprintf (fun s -> raise (Fail (Prop s))) fmt
let corr fmt = Printf.ksprintf (fun s -> raise (Fail (Corr s))) fmt

let starts_with s p = String.length s >= String.length p && String.sub s 0 (String.length p) = p

(* one described result "<table>:<structure>:<canon>" against the pointwise spec and the model *)
let check_result (e : env) ~(what : string) ~(want : tab) ~(model : Model.tdd Lazy.t) (res : string) : unit =
  if starts_with res "BUILD-MISMATCH" then
    prop "%s: an operand could not be built from constants/var/connectives (eval of the construction differs): %s" what res;
  match String.split_on_char ':' res with
  | [ ts; ss; canon ] ->
    let got = try parse_tab ts with Failure m -> prop "%s: unreadable result %s (%s)" what res m in
    if got <> want then prop "%s: impl=%s fixed-tables=%s" what ts (tab_str want);
    let m = Lazy.force model in
    let mt = tab_of_model e m in
    if mt <> want then corr "%s: model=%s fixed-tables=%s" what (tab_str mt) (tab_str want);
    let ms = struct_str m in
    if ms <> ss then corr "%s: node structure impl=%s model=%s" what ss ms;
    if canon <> "1" then corr "%s: handle differs from an earlier handle with the same value table %s" what ts
  | _ -> prop "%s: unreadable result %s" what res

let check_cof (e : env) ~(what : string) (t : tab) (res : string) (sep : char) : unit =
  if starts_with res "BUILD-MISMATCH" then prop "%s: %s" what res;
  let toks = List.filter (fun x -> x <> "") (String.split_on_char sep res) in
  let m = model_of_tab e t in
  let want =
    match top_var e t with
    | None -> None
    | Some i -> Some (restrict_tab t i 2, restrict_tab t i 1, restrict_tab t i 0)
  in
  let mcof = Model.cofactors m in
  (match (toks, want) with
  | [ "none"; _ ], None -> ()
  | [ a; b; c; _ ], Some (wt, wu, we) ->
    if a <> tab_str wt || b <> tab_str wu || c <> tab_str we then
      prop "%s: cofactors impl=(%s,%s,%s) restrictions of %s w.r.t. its top variable=(%s,%s,%s)" what a b c
        (tab_str t) (tab_str wt) (tab_str wu) (tab_str we)
  | _, None -> prop "%s: cofactors of the constant function %s are not None: %s" what (tab_str t) res
  | _, Some _ -> prop "%s: cofactors of the non-constant function %s: %s" what (tab_str t) res);
  (match (mcof, want) with
  | None, None -> ()
  | Some ((mt, mu), me), Some (wt, wu, we) ->
    if tab_of_model e mt <> wt || tab_of_model e mu <> wu || tab_of_model e me <> we then
      corr "%s: model cofactors differ from the restrictions" what
  | _ -> corr "%s: model cofactors None/Some differs from the spec" what);
  match List.rev toks with
  | "single=1" :: _ -> ()
  | _ -> corr "%s: cofactor_true/unknown/false disagree with cofactors(): %s" what res

let gt = Model.gt_size

let () =
  iter_cases stdin (fun c ->
      let order = param_int c "order" 0 in
      let e = if order = 0 then { p0 = 0; p1 = 1 } else { p0 = 1; p1 = 0 } in
      let bad = ref false in
      let fail i kind msg =
        bad := true;
        verdict_bad c i kind msg
      in
      List.iteri
        (fun i l ->
          if not !bad then
            if l = "HANG" then fail i "prop" "implementation did not terminate (watchdog)"
            else if starts_with l "PANIC" || starts_with l "CRASH" then fail i "prop" ("implementation panicked: " ^ l)
            else
              let ops, res = split_arrow l in
              let toks = split_ws ops in
              stat ("op_" ^ List.hd toks) 1;
              try
                match toks with
                | [ "C"; k ] ->
                  let v = match k with "f" -> Model.TF | "t" -> Model.TT | "u" -> Model.TU | _ -> failwith "const" in
                  let m = match k with "f" -> Model.tdd_f | "t" -> Model.tdd_t | _ -> Model.tdd_u in
                  check_result e ~what:("constant " ^ k) ~want:(Array.make 9 v) ~model:(lazy m) res
                | [ "V"; k ] ->
                  let i = int_of_string k in
                  let want = Array.init 9 (fun j -> vals.(if i = 0 then j / 3 else j mod 3)) in
                  let lvl = if i = 0 then e.p0 else e.p1 in
                  check_result e ~what:("var x" ^ k) ~want ~model:(lazy (Model.tdd_var (nat_lvl lvl))) res
                | [ "N"; f ] ->
                  let tf = parse_tab f in
                  check_result e ~what:("not " ^ f) ~want:(tab_map Model.k_not tf)
                    ~model:(lazy (Model.apply_not (model_of_tab e tf)))
                    res
                | [ "B"; op; f; g ] ->
                  let tf = parse_tab f and tg = parse_tab g in
                  let o = binop_of_string op in
                  check_result e
                    ~what:(Printf.sprintf "%s %s %s" op f g)
                    ~want:(tab_map2 (Model.table o) tf tg)
                    ~model:(lazy (get_some op (Model.apply_bin_auto gt o (model_of_tab e tf) (model_of_tab e tg))))
                    res
                | [ "I"; f; g; h ] ->
                  let tf = parse_tab f and tg = parse_tab g and th = parse_tab h in
                  check_result e
                    ~what:(Printf.sprintf "ite %s %s %s" f g h)
                    ~want:(tab_map3 Model.ite3 tf tg th)
                    ~model:
                      (lazy
                        (get_some "ite"
                           (Model.apply_ite_auto gt (model_of_tab e tf) (model_of_tab e tg) (model_of_tab e th))))
                    res
                | [ "K"; f ] -> check_cof e ~what:("cofactors " ^ f) (parse_tab f) res ' '
                | [ "Q"; f; g ] ->
                  if starts_with res "BUILD-MISMATCH" then prop "equality %s %s: %s" f g res;
                  let want = if f = g then "eq=1" else "eq=0" in
                  let m = if Model.tdd_eqb (model_of_tab e (parse_tab f)) (model_of_tab e (parse_tab g)) then "eq=1" else "eq=0" in
                  if m <> want then corr "model equality %s, tables %s" m want;
                  if res <> want then corr "handle equality of %s and %s (built on two routes): impl %s, value tables %s" f g res want
                | [ "A"; f; g; h ] ->
                  if starts_with res "BUILD-MISMATCH" then prop "operands %s %s %s: %s" f g h res;
                  let tf = parse_tab f and tg = parse_tab g and th = parse_tab h in
                  let mf = model_of_tab e tf and mg = model_of_tab e tg and mh = model_of_tab e th in
                  let fields =
                    List.map
                      (fun t ->
                        match String.index_opt t '=' with
                        | Some k -> (String.sub t 0 k, String.sub t (k + 1) (String.length t - k - 1))
                        | None -> (t, ""))
                      (split_ws res)
                  in
                  let field k = try List.assoc k fields with Not_found -> prop "missing field %s in %s" k res in
                  check_result e ~what:("not " ^ f) ~want:(tab_map Model.k_not tf) ~model:(lazy (Model.apply_not mf)) (field "not");
                  List.iter
                    (fun op ->
                      let o = binop_of_string op in
                      check_result e
                        ~what:(Printf.sprintf "%s %s %s" op f g)
                        ~want:(tab_map2 (Model.table o) tf tg)
                        ~model:(lazy (get_some op (Model.apply_bin_auto gt o mf mg)))
                        (field op))
                    binops;
                  check_result e
                    ~what:(Printf.sprintf "ite %s %s %s" f g h)
                    ~want:(tab_map3 Model.ite3 tf tg th)
                    ~model:(lazy (get_some "ite" (Model.apply_ite_auto gt mf mg mh)))
                    (field "ite");
                  check_cof e ~what:("cofactors " ^ f) tf (field "cof") ',';
                  let want = (if f = g then "1" else "0") ^ "1" in
                  if field "eq" <> want then
                    corr "handle equality (f == g built on route 2, g == g built on route 2) impl=%s value tables=%s" (field "eq") want
                | _ -> failwith ("unknown op line " ^ ops)
              with
              | Fail (Prop m) -> fail i "prop" (Printf.sprintf "line=[%s] %s" ops m)
              | Fail (Corr m) -> fail i "corr" (Printf.sprintf "line=[%s] %s" ops m)
              | Model_mismatch m -> fail i "corr" (Printf.sprintf "line=[%s] %s" ops m))
        c.lines;
      stat "cases" 1;
      stat "lines" (List.length c.lines);
      if not !bad then verdict_ok c);
  dump_stats ()
