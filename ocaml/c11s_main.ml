(* C11, table level: the extracted model of the TDD apply algorithms on hash-consed tables
   (coq/DD/ApplyTdd.v: td_apply_not, td_apply_bin, td_apply_ite, td_const, td_var, td_cofactors,
   td_eval, td_unfold) against the real TDD managers.

   Reads the trace of harness/src/bin/h_dd.rs (cases with kind=tdd; other kinds are skipped).
   Every snapshot is lifted into the extracted [Model.snap] (terminal value codes 0/1/2 =
   False/Unknown/True are the model's [tcode]); on every snapshot the hypothesis of the theorems
   is evaluated ([Model.td_ok_b] decides TdOK).  For every T3NOT / T3AND .. T3IMPS / T3ITE /
   T3CONST / T3VAR

   (prop) the value table of the real result over all 3^n three-valued assignments (extracted
          interpreter on the lifted snapshot) must be the FIXED TABLE of coq/DD/Tdd.v (extracted
          [k_not], [table], [ite3]) applied pointwise to the value tables of the real operands;
   (pre)  on the snapshot taken immediately BEFORE the operation (snap=each) the model builds the
          result itself with the real operand edges: same value table as the real result; if the
          model's result already existed in the pre-state table and no collection / reordering
          happened, the real handle must be that very edge; the real run creates at most as many
          nodes as the model started with an empty cache; every node of the pre-state is still
          there unchanged (the table is only extended);
   (post) on the first snapshot AFTER the operation in which the operand and result handles are
          unchanged the result function exists, so (theorems C11_snap_*_lifts, last clause;
          C11_snap_*_history_independent) the model must return exactly the real result edge
          and must not create anything;
   (tree) on that snapshot the unfolding [td_unfold] of the real result edge must be the result
          of the TREE algorithm of coq/DD/Tdd.v on the unfoldings of the real operand edges
          (theorem C11_snap_tree_model).

   T3EVAL: the extracted [td_eval] (bit-packed choices vector) and [td_eval_abs] on the lifted
   snapshot must return what the real [eval] returned for all 3^n assignments (argument order
   varied, repeated variables: the last value counts).
   T3COF: [td_cofactors] must return the three real cofactor handles (None for a terminal). *)
open Conv
open Dd_types

exception Fail of string          (* model <> implementation: kind=corr *)
exception Prop_fail of string     (* the property's own predicate is false: kind=prop *)

let gt_none (_ : Model.ref) (_ : Model.ref) = false
let gt_id (a : Model.ref) (b : Model.ref) =
  match a, b with
  | Model.RN x, Model.RN y -> Z.gt (z_of_pos x) (z_of_pos y)
  | Model.RN _, Model.RT _ -> true
  | Model.RT x, Model.RT y -> Z.gt (z_of_n x) (z_of_n y)
  | Model.RT _, Model.RN _ -> false
let gt_rev a b = gt_id b a

let ref_eq (a : Model.ref) (b : Model.ref) = Model.ref_eqb a b
let show_ref (r : Model.ref) = show_edge { Model.eref = r; Model.etag = false }

(* lifted snapshot; node ids are shifted down by [base] (a per-snapshot constant) so that the
   positive-keyed node map of the model stays shallow; [orig] undoes the shift *)
type lsnap = { ps : psnap; ms : Model.snap; base : Z.t; htab : (int, Model.ref) Hashtbl.t }

let shift_ref (d : Z.t) (r : Model.ref) : Model.ref =
  match r with
  | Model.RN p -> Model.RN (pos_of_z (Z.sub (z_of_pos p) d))
  | Model.RT _ -> r
let shift_edge d (e : Model.edge) = { e with Model.eref = shift_ref d e.Model.eref }
let orig (ls : lsnap) (r : Model.ref) : Model.ref = shift_ref (Z.neg ls.base) r

let relift (ps : psnap) : lsnap =
  let s = ps.snap in
  let els = Model.PositiveMap.elements s.Model.s_nodes in
  let minid = List.fold_left (fun m (id, _) -> Z.min m (z_of_pos id)) (Z.of_int max_int) els in
  let base = if els = [] then Z.zero else Z.pred minid in
  let nodes =
    List.fold_left
      (fun m (id, nd) ->
        let nd' = { nd with Model.nchildren = List.map (shift_edge base) nd.Model.nchildren } in
        Model.PositiveMap.add (pos_of_z (Z.sub (z_of_pos id) base)) nd' m)
      Model.PositiveMap.empty els in
  let handles = List.map (fun (sl, e) -> (sl, shift_edge base e)) s.Model.s_handles in
  let htab = Hashtbl.create 64 in
  List.iter (fun (sl, e) -> Hashtbl.replace htab sl (shift_ref base e.Model.eref)) ps.handles;
  { ps; base; htab; ms = { s with Model.s_nodes = nodes; Model.s_handles = handles } }

(* ---- three-valued value tables --------------------------------------------------------- *)
(* index a in [0, 3^n): digit v (base 3) = child index taken at VARIABLE v (0 true, 1 unknown,
   2 false); entries are terminal value codes (0 False, 1 Unknown, 2 True) *)
let tri_of_code = function 0 -> Model.TF | 1 -> Model.TU | _ -> Model.TT
let code_of_tri = function Model.TF -> 0 | Model.TU -> 1 | Model.TT -> 2
let tri_of_child = function 0 -> Model.TT | 1 -> Model.TU | _ -> Model.TF
let show_tri = function Model.TF -> "F" | Model.TU -> "U" | Model.TT -> "T"

let vtab (s : Model.snap) (l2v : int array) (r : Model.ref) : int array =
  let n = Array.length l2v in
  Array.init (pow3 n) (fun a ->
      let c (lvl : Model.nat) : Model.nat =
        let l = int_of_nat lvl in
        if l < n then nat (a / pow3 l2v.(l) mod 3) else Model.O in
      match Model.sem_edge s { Model.eref = r; Model.etag = false } c with
      | Some v -> int_of_n v
      | None -> raise (Fail (Printf.sprintf "interpretation of %s undefined" (show_ref r))))

let show_tab (t : int array) =
  if Array.length t <= 81 then String.concat "" (List.map string_of_int (Array.to_list t))
  else Digest.to_hex (Digest.string (String.concat "" (List.map string_of_int (Array.to_list t))))

let ref_exists (s : Model.snap) (r : Model.ref) : bool =
  match r with
  | Model.RN id -> Model.find_node s id <> None
  | Model.RT t -> Model.term_val s t <> None

(* the model returns the table itself when it creates nothing ([mk_node]/[get_or_insert] on a hit) *)
let unchanged (s : Model.snap) (s' : Model.snap) = s'.Model.s_nodes == s.Model.s_nodes
let cardinal (s : Model.snap) = List.length (Model.PositiveMap.elements s.Model.s_nodes)

let binop_of = function
  | "T3AND" -> Model.And | "T3OR" -> Model.Or | "T3NAND" -> Model.Nand | "T3NOR" -> Model.Nor
  | "T3XOR" -> Model.Xor | "T3EQUIV" -> Model.Equiv | "T3IMP" -> Model.Imp | "T3IMPS" -> Model.ImpStrict
  | o -> failwith ("binop " ^ o)
let is_bin = function
  | "T3AND" | "T3OR" | "T3NAND" | "T3NOR" | "T3XOR" | "T3EQUIV" | "T3IMP" | "T3IMPS" -> true
  | _ -> false
let const_of = function "f" -> Model.TF | "u" -> Model.TU | _ -> Model.TT

let strip = function Some ((s', _), r) -> Some (s', r) | None -> None
let fuel_of (s : Model.snap) = nat (List.length s.Model.s_l2v + 1)

(* the model's operations with a cache instance / edge order / cache contents chosen by [k] (the
   theorems hold for all of them) *)
let run_not (k : int) (s : Model.snap) (a : Model.ref) =
  let fuel = fuel_of s in
  match k mod 3 with
  | 0 -> strip (Model.td_apply_not Model.ac_get Model.ac_add fuel s [] a)
  | 1 -> strip (Model.td_apply_not Model.nc_get Model.nc_add fuel s () a)
  | _ ->
    (* second run with the cache the first run filled *)
    (match Model.td_apply_not Model.ac_get Model.ac_add fuel s [] a with
     | Some ((s1, c1), _) -> strip (Model.td_apply_not Model.ac_get Model.ac_add fuel s1 c1 a)
     | None -> None)

let run_bin (k : int) (s : Model.snap) (op : Model.binop) (a : Model.ref) (b : Model.ref) =
  let fuel = fuel_of s in
  match k mod 5 with
  | 0 -> strip (Model.td_apply_bin gt_none Model.ac_get Model.ac_add fuel s [] op a b)
  | 1 -> strip (Model.td_apply_bin gt_id Model.ac_get Model.ac_add fuel s [] op a b)
  | 2 -> strip (Model.td_apply_bin gt_id Model.nc_get Model.nc_add fuel s () op a b)
  | 3 -> strip (Model.td_apply_bin gt_rev Model.nc_get Model.nc_add fuel s () op a b)
  | _ ->
    (match Model.td_apply_bin gt_rev Model.ac_get Model.ac_add fuel s [] op a b with
     | Some ((s1, c1), _) -> strip (Model.td_apply_bin gt_id Model.ac_get Model.ac_add fuel s1 c1 op a b)
     | None -> None)

let run_ite (k : int) (s : Model.snap) (f : Model.ref) (g : Model.ref) (h : Model.ref) =
  let fuel = fuel_of s in
  match k mod 4 with
  | 0 -> strip (Model.td_apply_ite gt_id Model.ac_get Model.ac_add fuel s [] f g h)
  | 1 -> strip (Model.td_apply_ite gt_none Model.nc_get Model.nc_add fuel s () f g h)
  | 2 -> strip (Model.td_apply_ite gt_rev Model.ac_get Model.ac_add fuel s [] f g h)
  | _ ->
    (match Model.td_apply_ite gt_id Model.ac_get Model.ac_add fuel s [] f g h with
     | Some ((s1, c1), _) -> strip (Model.td_apply_ite gt_rev Model.ac_get Model.ac_add fuel s1 c1 f g h)
     | None -> None)

(* one pending operation *)
type pend = {
  pstep : int; ptoks : string list; pres : string;
  ppre : lsnap option;                 (* snapshot taken immediately before the operation *)
  pops : (int * int) list;             (* operand slots with their version when the op was issued *)
  pdst : (int * int) list;             (* destination slots with their versions after the op *)
}

let tree_size_limit = 6      (* unfolding is exponential in the number of levels *)

(* wide cases (header wide=1): managers with 17..70 variables, where value tables over all 3^n assignments are
   out of reach.  Every slot carries the EXPRESSION that built it; T3EVALA h <assignment> (one letter t/u/f per
   variable) must return the value of that expression under the fixed tables (extracted k_not / table / ite3).
   No snapshot is lifted here. *)
type wexpr = WC of Model.tri | WV of int | WN of wexpr | WB of Model.binop * wexpr * wexpr | WI of wexpr * wexpr * wexpr

let rec weval (a : string) (e : wexpr) : Model.tri =
  match e with
  | WC t -> t
  | WV v -> (match a.[v] with 't' -> Model.TT | 'u' -> Model.TU | _ -> Model.TF)
  | WN x -> Model.k_not (weval a x)
  | WB (op, x, y) -> Model.table op (weval a x) (weval a y)
  | WI (f, g, h) -> Model.ite3 (weval a f) (weval a g) (weval a h)

let wide_case c =
  let failed = ref false in
  let fail step msg =
    stat "c11s_bad_prop" 1;
    if not !failed then (failed := true; verdict_bad c step "prop" ("prop=C11 wide eval: " ^ msg)) in
  let ex : (int, wexpr) Hashtbl.t = Hashtbl.create 64 in
  List.iteri
    (fun i l ->
      if l = "HANG" || starts_with l "PANIC" || starts_with l "CRASH" then fail i ("implementation panicked/hung: " ^ l)
      else begin
        let ops, res = split_arrow l in
        let get a = Hashtbl.find_opt ex (slot_of a) in
        if not (starts_with res "err") then
          match split_ws ops with
          | [ "T3CONST"; d; v ] -> Hashtbl.replace ex (slot_of d) (WC (const_of v))
          | [ "T3VAR"; d; v ] -> Hashtbl.replace ex (slot_of d) (WV (int_of_string v))
          | [ "T3NOT"; d; a ] ->
            (match get a with Some x -> Hashtbl.replace ex (slot_of d) (WN x) | None -> Hashtbl.remove ex (slot_of d))
          | [ op; d; a; b ] when is_bin op ->
            (match get a, get b with
             | Some x, Some y -> Hashtbl.replace ex (slot_of d) (WB (binop_of op, x, y))
             | _ -> Hashtbl.remove ex (slot_of d))
          | [ "T3ITE"; d; f; g; h ] ->
            (match get f, get g, get h with
             | Some x, Some y, Some z -> Hashtbl.replace ex (slot_of d) (WI (x, y, z))
             | _ -> Hashtbl.remove ex (slot_of d))
          | [ "CLONE"; d; a ] ->
            (match get a with Some x -> Hashtbl.replace ex (slot_of d) x | None -> Hashtbl.remove ex (slot_of d))
          | [ ("DROP" | "DROPT"); a ] -> Hashtbl.remove ex (slot_of a)
          | [ "DROPALL" ] -> Hashtbl.reset ex
          | [ "T3EVALA"; a; asg ] ->
            (match get a, split_ws res with
             | Some x, [ "ev3"; v ] ->
               stat "c11s_wide_eval" 1;
               let m = weval asg x in
               if v <> show_tri m then
                 fail i (Printf.sprintf "eval of h%d under %s is %s, the fixed tables applied to the expression that built it give %s"
                           (slot_of a) asg v (show_tri m))
             | _ -> stat "c11s_unresolved" 1)
          | _ -> ()
      end)
    c.lines;
  stat "c11s_wide_cases" 1;
  if not !failed then verdict_ok c

let () =
  iter_cases stdin (fun c ->
      let kname = match param c "kind" with Some k -> k | None -> "bdd" in
      if kname <> "tdd" then verdict_ok c
      else if param c "wide" = Some "1" then wide_case c
      else begin
        let failed = ref false in
        let fail kind step msg =
          stat ("c11s_bad_" ^ kind) 1;
          if not !failed then (failed := true; verdict_bad c step kind ("prop=C11 table model: " ^ msg)) in
        let versions : (int, int) Hashtbl.t = Hashtbl.create 32 in
        let epoch = ref 0 in
        let ver slot = (!epoch * 1000000) + (try Hashtbl.find versions slot with Not_found -> 0) in
        let bump slot = Hashtbl.replace versions slot (1 + try Hashtbl.find versions slot with Not_found -> 0) in
        let cur : lsnap option ref = ref None in
        let fresh = ref false in
        let pending : pend list ref = ref [] in

        (* the model's run of operation [p] on table [ls] with the operand edges [get name] *)
        let run_op (p : pend) (ls : lsnap) (get : string -> Model.ref) : (Model.snap * Model.ref) option =
          let s = ls.ms in
          let k = p.pstep in
          match p.ptoks with
          | [ "T3NOT"; _; a ] -> run_not k s (get a)
          | [ op; _; a; b ] when is_bin op -> run_bin k s (binop_of op) (get a) (get b)
          | [ "T3ITE"; _; f; g; h ] -> run_ite k s (get f) (get g) (get h)
          | [ "T3CONST"; _; v ] -> (match Model.td_const s (const_of v) with Some r -> Some (s, r) | None -> None)
          | [ "T3VAR"; _; v ] -> Model.td_var s (nat (int_of_string v))
          | _ -> None in
        let operand_names (toks : string list) : string list =
          match toks with
          | [ "T3NOT"; _; a ] -> [ a ]
          | [ op; _; a; b ] when is_bin op -> [ a; b ]
          | [ "T3ITE"; _; f; g; h ] -> [ f; g; h ]
          | [ "T3EVAL"; a ] -> [ a ]
          | [ "T3COF"; _; _; _; f ] -> [ f ]
          | _ -> [] in

        let resolve (snap_step : int) (post : lsnap) =
          let n = Array.length post.ps.l2v in
          List.iter
            (fun p ->
              let what = String.concat " " p.ptoks in
              try
                let handle (ls : lsnap) (name : string) : Model.ref = Hashtbl.find ls.htab (slot_of name) in
                let ops_valid = List.for_all (fun (sl, v) -> ver sl = v) p.pops in
                let dst_valid = p.pdst <> [] && List.for_all (fun (sl, v) -> ver sl = v) p.pdst in
                match p.ptoks with
                | [ "T3EVAL"; a ] ->
                  if ops_valid then begin
                    match split_ws p.pres with
                    | "vt3" :: nn :: vals when int_of_string nn = n ->
                      let r = handle post a in
                      stat "c11s_eval" 1;
                      List.iteri
                        (fun idx impl ->
                          let base_args = List.init n (fun v -> (nat v, tri_of_child (idx / pow3 v mod 3))) in
                          let args =
                            match (p.pstep + idx) mod 3 with
                            | 0 -> base_args
                            | 1 -> List.rev base_args
                            | _ -> List.init n (fun v -> (nat v, Model.TU)) @ base_args   (* the last value counts *)
                          in
                          let m1 = Model.td_eval post.ms r args and m2 = Model.td_eval_abs post.ms r args in
                          (match m1, m2 with
                           | Some x, Some y when x = y ->
                             if string_of_int (code_of_tri x) <> impl then
                               raise (Fail (Printf.sprintf "%s: eval at assignment %d is %s, the model's td_eval gives %d" what idx impl (code_of_tri x)))
                           | Some _, Some _ -> raise (Fail (what ^ ": td_eval (packed choices) and td_eval_abs differ"))
                           | _ -> raise (Fail (what ^ ": the model's td_eval is undefined"))))
                        vals
                    | _ -> ()
                  end
                | [ "T3COF"; t; u; e; f ] ->
                  if ops_valid then begin
                    let rf = handle post f in
                    match p.pres, Model.td_cofactors post.ms rf with
                    | "none", None -> stat "c11s_cof" 1
                    | "none", Some _ -> raise (Fail (what ^ ": cofactors() returned None, the model's td_cofactors returns children"))
                    | "ok", None -> raise (Fail (what ^ ": cofactors() returned children, the model's td_cofactors returns None"))
                    | "ok", Some ((mt, mu), me) ->
                      if dst_valid then begin
                        stat "c11s_cof" 1;
                        List.iter2
                          (fun name m ->
                            let real = handle post name in
                            if not (ref_eq real m) then
                              raise (Fail (Printf.sprintf "%s: cofactor handle %s is %s, the model's td_cofactors gives %s" what name
                                             (show_ref (orig post real)) (show_ref (orig post m)))))
                          [ t; u; e ] [ mt; mu; me ]
                      end
                    | _ -> ()
                  end
                | _ when dst_valid ->
                  let dslot = fst (List.hd p.pdst) in
                  let dst_edge = Hashtbl.find post.htab dslot in
                  let real_tab = vtab post.ms post.ps.l2v dst_edge in
                  (* where the operand tables come from: the pre-state (same variable order) or the post-state *)
                  let pre_ok = (match p.ppre with Some pre -> pre.ps.l2v = post.ps.l2v | None -> false) in
                  let opnd_tab (name : string) : int array =
                    match p.ppre with
                    | Some pre when pre_ok && Hashtbl.mem pre.htab (slot_of name) -> vtab pre.ms pre.ps.l2v (handle pre name)
                    | _ -> if ops_valid then vtab post.ms post.ps.l2v (handle post name) else raise Not_found in
                  (* (prop) the fixed tables, pointwise *)
                  (let size = pow3 n in
                   let expect : int array option =
                     match p.ptoks with
                     | [ "T3NOT"; _; a ] ->
                       let ta = opnd_tab a in
                       Some (Array.init size (fun i -> code_of_tri (Model.k_not (tri_of_code ta.(i)))))
                     | [ op; _; a; b ] when is_bin op ->
                       let ta = opnd_tab a and tb = opnd_tab b in
                       Some (Array.init size (fun i -> code_of_tri (Model.table (binop_of op) (tri_of_code ta.(i)) (tri_of_code tb.(i)))))
                     | [ "T3ITE"; _; f; g; h ] ->
                       let tf = opnd_tab f and tg = opnd_tab g and th = opnd_tab h in
                       Some (Array.init size (fun i ->
                                 code_of_tri (Model.ite3 (tri_of_code tf.(i)) (tri_of_code tg.(i)) (tri_of_code th.(i)))))
                     | [ "T3CONST"; _; v ] -> Some (Array.make size (code_of_tri (const_of v)))
                     | [ "T3VAR"; _; v ] ->
                       let v = int_of_string v in
                       Some (Array.init size (fun i -> code_of_tri (tri_of_child (i / pow3 v mod 3))))
                     | _ -> None in
                   match expect with
                   | Some ex ->
                     stat "c11s_prop_checked" 1;
                     if ex <> real_tab then
                       raise (Prop_fail (Printf.sprintf "%s: result values [%s] (index = assignment in base 3, digit v: 0 true 1 unknown 2 false; value 0 F 1 U 2 T), the fixed table applied pointwise to the operands gives [%s]"
                                           what (show_tab real_tab) (show_tab ex)))
                   | None -> ());
                  (* (pre) the model builds the result on the pre-state table *)
                  (match p.ppre with
                   | Some pre when pre_ok ->
                     (match run_op p pre (handle pre) with
                      | None -> raise (Fail (what ^ ": the model is undefined on the pre-state where the implementation returned a result"))
                      | Some (s', r) ->
                        stat "c11s_runs_pre" 1;
                        let created = cardinal s' - cardinal pre.ms in
                        if created > 0 then stat "c11s_pre_created" 1;
                        let mt = vtab s' pre.ps.l2v r in
                        if mt <> real_tab then
                          raise (Fail (Printf.sprintf "%s: model result values [%s], implementation [%s]" what (show_tab mt) (show_tab real_tab)));
                        let quiet = pre.ps.gc = post.ps.gc && pre.ps.reorder = post.ps.reorder in
                        if ref_exists pre.ms r && quiet then begin
                          stat "c11s_pre_edge_cmp" 1;
                          if not (ref_eq (orig pre r) (orig post dst_edge)) then
                            raise (Fail (Printf.sprintf "%s: the model finds the existing edge %s, the implementation returned %s" what (show_ref (orig pre r)) (show_ref (orig post dst_edge))))
                        end;
                        if quiet && snap_step = p.pstep + 1 then begin
                          (* exactly this operation lies between the two snapshots *)
                          stat "c11s_extends_checked" 1;
                          let real_created = post.ps.nnodes - pre.ps.nnodes in
                          if real_created > created then
                            raise (Fail (Printf.sprintf "%s: the implementation created %d nodes, the model started with an empty cache creates only %d" what real_created created));
                          List.iter
                            (fun (id, nd) ->
                              let oid = Z.add (z_of_pos id) pre.base in
                              match Model.find_node post.ms (pos_of_z (Z.sub oid post.base)) with
                              | Some nd' ->
                                let same =
                                  nd'.Model.nlevel = nd.Model.nlevel
                                  && List.length nd'.Model.nchildren = List.length nd.Model.nchildren
                                  && List.for_all2 (fun a b -> ref_eq (orig pre a.Model.eref) (orig post b.Model.eref))
                                       nd.Model.nchildren nd'.Model.nchildren in
                                if not same then
                                  raise (Fail (Printf.sprintf "%s: node n%s changed although neither gc nor reordering ran" what (Z.to_string (Z.pred oid))))
                              | None -> raise (Fail (Printf.sprintf "%s: node n%s disappeared although neither gc nor reordering ran" what (Z.to_string (Z.pred oid)))))
                            (Model.PositiveMap.elements pre.ms.Model.s_nodes)
                        end)
                   | _ -> ());
                  (* (post) the result exists: the model must return that very edge and create nothing *)
                  if ops_valid then begin
                    (match run_op p post (handle post) with
                     | None -> raise (Fail (what ^ ": the model is undefined on the post-state"))
                     | Some (s', r) ->
                       stat "c11s_runs_post" 1;
                       if not (ref_eq r dst_edge) then
                         raise (Fail (Printf.sprintf "%s: on the table that holds the result the model returns %s, the implementation's handle is %s" what (show_ref (orig post r)) (show_ref (orig post dst_edge))));
                       if not (unchanged post.ms s') then
                         raise (Fail (what ^ ": the model creates nodes although the result exists")));
                    (* (tree) unfolding commutes with the tree algorithm of DD/Tdd.v *)
                    if n <= tree_size_limit then begin
                      let unf (r : Model.ref) : Model.tdd =
                        match Model.td_unfold (fuel_of post.ms) post.ms r with
                        | Some t -> t
                        | None -> raise (Fail (what ^ ": td_unfold undefined")) in
                      let tree : Model.tdd option option =
                        match p.ptoks with
                        | [ "T3NOT"; _; a ] -> Some (Some (Model.apply_not (unf (handle post a))))
                        | [ op; _; a; b ] when is_bin op ->
                          Some (Model.apply_bin_auto Model.gt_size (binop_of op) (unf (handle post a)) (unf (handle post b)))
                        | [ "T3ITE"; _; f; g; h ] ->
                          Some (Model.apply_ite_auto Model.gt_size (unf (handle post f)) (unf (handle post g)) (unf (handle post h)))
                        | _ -> None in
                      match tree with
                      | Some (Some t) ->
                        stat "c11s_tree" 1;
                        if not (Model.tdd_eqb t (unf dst_edge)) then
                          raise (Fail (what ^ ": the unfolding of the result edge is not the result of the tree algorithm (DD/Tdd.v) on the unfolded operands"))
                      | Some None -> raise (Fail (what ^ ": the tree algorithm is undefined on the unfolded operands"))
                      | None -> ()
                    end
                  end
                | _ -> stat "c11s_unresolved" 1
              with
              | Fail m -> fail "corr" p.pstep m
              | Prop_fail m -> fail "prop" p.pstep m
              | Not_found -> stat "c11s_unresolved" 1)
            (List.rev !pending);
          pending := [] in

        List.iteri
          (fun i l ->
            if l = "HANG" || starts_with l "PANIC" || starts_with l "CRASH" then
              fail "prop" i ("implementation panicked/hung: " ^ l)
            else begin
              let ops, res = split_arrow l in
              let toks = split_ws ops in
              match toks with
              | [ "SNAP" ] ->
                (try
                   let ls = relift (parse_snapshot kname res) in
                   stat "c11s_snapshots" 1;
                   if not (Model.td_ok_b ls.ms) then
                     fail "corr" i "td_ok_b false on a snapshot (hypothesis TdOK of the C11_snap theorems)"
                   else resolve i ls;
                   cur := Some ls; fresh := true
                 with Failure m -> fail "corr" i ("driver: " ^ m))
              | _ when starts_with res "err" -> ()      (* skip / oom: nothing assigned, nothing executed *)
              | [] -> ()
              | op :: rest ->
                let pre = if !fresh then !cur else None in
                (match op, rest with
                 | ("T3NOT" | "T3ITE" | "T3CONST" | "T3VAR"), dst :: _ ->
                   let pops = List.map (fun a -> (slot_of a, ver (slot_of a))) (operand_names toks) in
                   bump (slot_of dst);
                   pending := { pstep = i; ptoks = toks; pres = res; ppre = pre; pops;
                                pdst = [ (slot_of dst, ver (slot_of dst)) ] } :: !pending
                 | o, dst :: _ when is_bin o ->
                   let pops = List.map (fun a -> (slot_of a, ver (slot_of a))) (operand_names toks) in
                   bump (slot_of dst);
                   pending := { pstep = i; ptoks = toks; pres = res; ppre = pre; pops;
                                pdst = [ (slot_of dst, ver (slot_of dst)) ] } :: !pending
                 | "T3COF", [ t; u; e; f ] ->
                   let pops = [ (slot_of f, ver (slot_of f)) ] in
                   let dsts =
                     if res = "ok" then (List.iter (fun d -> bump (slot_of d)) [ t; u; e ];
                                         List.map (fun d -> (slot_of d, ver (slot_of d))) [ t; u; e ])
                     else [] in
                   (* the operand may be one of the destinations: its version is taken before the bump *)
                   pending := { pstep = i; ptoks = toks; pres = res; ppre = pre; pops; pdst = dsts } :: !pending
                 | "T3EVAL", [ a ] ->
                   pending := { pstep = i; ptoks = toks; pres = res; ppre = pre;
                                pops = [ (slot_of a, ver (slot_of a)) ]; pdst = [] } :: !pending
                 | "CLONE", dst :: _ -> bump (slot_of dst)
                 | ("DROP" | "DROPT"), [ a ] -> bump (slot_of a)
                 | "DROPALL", _ -> incr epoch
                 | _ -> ());
                fresh := false
            end)
          c.lines;
        stat "c11s_cases" 1;
        if not !failed then verdict_ok c
      end);
  dump_stats ()
