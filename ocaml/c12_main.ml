(* C12 (number types) driver: replays every op of the implementation's trace
   (harness h_nat) on
     (1) an independent big-integer oracle written with Zarith ([onat]: the
         mathematical value as odd mantissa * 2^exponent, or NaN), and
     (2) the extracted Gallina model of Natural / Saturating / F64 (module Model;
         F64 and the specification of Natural -> f64 are Flocq's binary64).
   kind=prop: the implementation's result is not the exact mathematical value
   (or panicked / crashed); kind=corr: implementation and oracle agree but the
   model computes something else. *)
open Conv

(* ---------------------------------------------------------------- oracle *)
type onat = ONaN | OVal of Z.t * Z.t (* odd mantissa (or 0 with exponent 0), exponent *)

let u64max = Z.pred (Z.shift_left Z.one 64)
let big = Z.of_int 65536
let ozero = OVal (Z.zero, Z.zero)

let norm v e =
  if Z.sign v = 0 then ozero
  else
    let tz = Z.trailing_zeros v in
    let e' = Z.add e (Z.of_int tz) in
    if Z.geq e' u64max then ONaN else OVal (Z.shift_right v tz, e')

(* None: operands too far apart (the harness skips the operation) *)
let o_add a b =
  match (a, b) with
  | ONaN, _ | _, ONaN -> Some ONaN
  | OVal (m1, e1), OVal (m2, e2) ->
    if Z.sign m1 = 0 then Some b
    else if Z.sign m2 = 0 then Some a
    else if Z.gt (Z.abs (Z.sub e1 e2)) big then None
    else
      let e = Z.min e1 e2 in
      Some
        (norm
           (Z.add (Z.shift_left m1 (Z.to_int (Z.sub e1 e))) (Z.shift_left m2 (Z.to_int (Z.sub e2 e))))
           e)

let o_shl a k =
  match a with
  | ONaN -> ONaN
  | OVal (m, e) -> if Z.sign m = 0 then a else if Z.geq (Z.add e k) u64max then ONaN else OVal (m, Z.add e k)

let o_shr a k =
  match a with
  | ONaN -> ONaN
  | OVal (m, e) -> if Z.sign m = 0 then a else if Z.geq e k then OVal (m, Z.sub e k) else ONaN

let o_bw = function ONaN -> Z.zero | OVal (m, e) -> Z.add (Z.of_int (Z.numbits m)) e

let o_cmp a b =
  match (a, b) with
  | ONaN, _ | _, ONaN -> None
  | OVal (m1, e1), OVal (m2, e2) ->
    let c = Z.compare (o_bw a) (o_bw b) in
    if c <> 0 then Some c
    else
      let e = Z.min e1 e2 in
      Some (Z.compare (Z.shift_left m1 (Z.to_int (Z.sub e1 e))) (Z.shift_left m2 (Z.to_int (Z.sub e2 e))))

let o_eq a b = match (a, b) with ONaN, ONaN -> true | ONaN, _ | _, ONaN -> false | _ -> o_cmp a b = Some 0

let o_small_val a limit =
  match a with
  | ONaN -> None
  | OVal (m, e) -> if Z.leq (o_bw a) (Z.of_int limit) then Some (Z.shift_left m (Z.to_int e)) else None

(* round to nearest even, computed on integers *)
let o_f64 a =
  match a with
  | ONaN -> "7ff8000000000000"
  | OVal (m, e) ->
    if Z.sign m = 0 then "0000000000000000"
    else
      let nb = Z.numbits m in
      let q, bw =
        if nb <= 53 then (Z.shift_left m (53 - nb), o_bw a)
        else
          let sh = nb - 53 in
          let q = Z.shift_right m sh in
          let rem = Z.sub m (Z.shift_left q sh) in
          let half = Z.shift_left Z.one (sh - 1) in
          let c = Z.compare rem half in
          let q = if c > 0 || (c = 0 && Z.is_odd q) then Z.succ q else q in
          if Z.equal q (Z.shift_left Z.one 53) then (Z.shift_left Z.one 52, Z.succ (o_bw a)) else (q, o_bw a)
      in
      if Z.gt bw (Z.of_int 1024) then "7ff0000000000000"
      else
        let ef = Z.add bw (Z.of_int 1022) in
        let bits = Z.add (Z.shift_left ef 52) (Z.sub q (Z.shift_left Z.one 52)) in
        Z.format "%016x" bits

(* the specification of the conversion: extracted Flocq [binary_normalize mode_NE m e] *)
let flocq_f64 a =
  match a with
  | ONaN -> "7ff8000000000000"
  | OVal (m, e) -> Z.format "%016x" (z_of_mz (Model.bits_of_b64 (Model.f64_norm_int (mz_of_z m) (mz_of_z e))))

let limbs_hex (m : Z.t) : string =
  let rec go v acc =
    if Z.sign v = 0 then List.rev acc else go (Z.shift_right v 64) (Z.format "%x" (Z.logand v u64max) :: acc)
  in
  String.concat "," (if Z.sign m = 0 then [ "0" ] else go m [])

let o_desc = function
  | ONaN -> "nan"
  | OVal (m, e) as a -> Printf.sprintf "m=%s e=%s bw=%s" (limbs_hex m) (Z.to_string e) (Z.to_string (o_bw a))

let digits_of_string (s : string) : Z.t list =
  if s = "-" then [] else List.map (Z.of_string_base 16) (String.split_on_char ',' s)

let o_of_digits (ds : Z.t list) : onat =
  norm (List.fold_right (fun d acc -> Z.add d (Z.shift_left acc 64)) ds Z.zero) Z.zero

let o_fmt a =
  match a with
  | ONaN -> Some "d=? b=? o=? x=? X=?"
  | OVal (m, e) ->
    if Z.gt e big then None
    else
      let v = Z.shift_left m (Z.to_int e) in
      Some
        (Printf.sprintf "d=%s b=%s o=%s x=%s X=%s" (Z.to_string v) (Z.format "%b" v)
           (Z.format "%o" v) (Z.format "%x" v) (Z.format "%X" v))

(* std::fmt::Formatter::pad_integral for a non-negative number *)
type align = L | R | C | Dflt

let std_pad_integral ~plus ~alt ~zero ~width ~fill ~align prefix digits =
  let sp = (if plus then "+" else "") ^ if alt then prefix else "" in
  let w = String.length sp + String.length digits in
  if width <= w then sp ^ digits
  else if zero then sp ^ String.make (width - w) '0' ^ digits
  else
    let p = width - w in
    let pre, post = match align with L -> (0, p) | R | Dflt -> (p, 0) | C -> (p / 2, (p + 1) / 2) in
    String.make pre fill ^ sp ^ digits ^ String.make post fill

(* the format specs of the harness' [fmtf] op:
   (base, plus, alt, zero, width, fill, align) *)
let fmtf_specs =
  [ (2, false, true, false, 0, ' ', Dflt); (8, false, true, false, 0, ' ', Dflt);
    (16, false, true, false, 0, ' ', Dflt); (-16, false, true, false, 0, ' ', Dflt);
    (16, false, false, false, 12, ' ', R); (8, false, false, false, 12, ' ', L);
    (2, false, false, false, 13, '*', C); (16, false, false, true, 12, ' ', Dflt);
    (16, true, false, false, 0, ' ', Dflt); (-16, false, true, true, 14, ' ', Dflt);
    (8, true, true, false, 9, '-', L); (10, false, false, false, 7, ' ', Dflt) ]

let prefix_of b = match abs b with 2 -> "0b" | 8 -> "0o" | 16 -> "0x" | _ -> ""

let zformat_base b v =
  match b with 2 -> Z.format "%b" v | 8 -> Z.format "%o" v | 16 -> Z.format "%x" v | -16 -> Z.format "%X" v | _ -> Z.to_string v

let nan_padded width fill align =
  if width >= 2 then
    let w = width - 1 in
    match align with
    | L -> "?" ^ String.make w fill
    | C -> String.make (w / 2) fill ^ "?" ^ String.make (w - (w / 2)) fill
    | _ -> String.make w fill ^ "?"
  else "?"

let o_fmtf a =
  match a with
  | ONaN ->
    (* [fmt_nan]: fill, '?', fill; the default alignment is right *)
    Some
      (String.concat " "
         (List.map (fun (_, _, _, _, width, fill, align) -> "[" ^ nan_padded width fill align ^ "]") fmtf_specs))
  | OVal (m, e) ->
    if Z.gt e big then None
    else
      let v = Z.shift_left m (Z.to_int e) in
      Some
        (String.concat " "
           (List.map
              (fun (b, plus, alt, zero, width, fill, align) ->
                "[" ^ std_pad_integral ~plus ~alt ~zero ~width ~fill ~align (prefix_of b) (zformat_base b v) ^ "]")
              fmtf_specs))

(* ----------------------------------------------------------------- model *)
let m_desc (x : Model.natural) : string =
  if Model.is_nan x then "nan"
  else
    Printf.sprintf "m=%s e=%s bw=%s"
      (String.concat "," (List.map (fun d -> Z.format "%x" (z_of_n d)) (Model.mantissa x)))
      (string_of_n (Model.exp x)) (string_of_n (Model.bit_width x))

let m_is_zero (x : Model.natural) = Model.len_is_zero x

let m_far (a : Model.natural) (b : Model.natural) =
  (not (Model.is_nan a)) && (not (Model.is_nan b)) && (not (m_is_zero a)) && (not (m_is_zero b))
  && Z.gt (Z.abs (Z.sub (z_of_n (Model.expo a)) (z_of_n (Model.expo b)))) big

let digit_char upper (d : Model.n) : char =
  let i = int_of_n d in
  if i < 10 then Char.chr (48 + i) else Char.chr ((if upper then 55 else 87) + i)

let m_digits_string upper (o : Model.n list option) : string =
  match o with
  | None -> "?"
  | Some l ->
    let b = Buffer.create 64 in
    List.iter (fun d -> Buffer.add_char b (digit_char upper d)) l;
    Buffer.contents b

let m_fmt (x : Model.natural) : string option =
  if (not (Model.is_nan x)) && Z.gt (z_of_n (Model.expo x)) big then None
  else
    (* Display: the extracted decimal digits [fmt_dec_digits] (theorem C12_nat_fmt_dec_digits); for very
       long numbers (the model's division is quadratic) the number [fmt_dec] printed by Zarith *)
    let d =
      match Model.fmt_dec x with
      | None -> "?"
      | Some v ->
        if Z.numbits (z_of_n v) <= 1536 then (stat "dec_digits_model" 1; m_digits_string false (Model.fmt_dec_digits x))
        else string_of_n v
    in
    Some
      (Printf.sprintf "d=%s b=%s o=%s x=%s X=%s" d
         (m_digits_string false (Model.fmt_bin x))
         (m_digits_string false (Model.fmt_oct x))
         (m_digits_string false (Model.fmt_hex x))
         (m_digits_string true (Model.fmt_hex x)))

let m_align = function L -> Model.ALeft | R -> Model.ARight | C -> Model.ACenter | Dflt -> Model.AUnknown

(* Binary/Octal/Hex with flags through the model's pad_integral; Display
   (base 10) is dashu's and has no model: the oracle's text is used *)
let m_fmtf (x : Model.natural) (oracle : string option) : string option =
  if (not (Model.is_nan x)) && Z.gt (z_of_n (Model.expo x)) big then None
  else
    let oracle_items =
      match oracle with
      | Some s -> Array.of_list (String.split_on_char ']' s)
      | None -> [||]
    in
    Some
      (String.concat " "
         (List.mapi
            (fun i (b, plus, alt, zero, width, fill, align) ->
              let flags =
                { Model.f_alternate = alt; f_sign_plus = plus; f_zero_pad = zero;
                  f_width = (if width = 0 then None else Some (n_of_int width)); f_align = m_align align }
              in
              if Model.is_nan x then (
                let pre, post = Model.fmt_nan_layout flags in
                "[" ^ String.make (int_of_n pre) fill ^ "?" ^ String.make (int_of_n post) fill ^ "]")
              else if b = 10 then (
                (* "[...]" items are separated by "] " in the oracle's text *)
                let it = if i < Array.length oracle_items then String.trim oracle_items.(i) else "[?" in
                it ^ "]")
              else
                let bpd = match abs b with 2 -> 1 | 8 -> 3 | _ -> 4 in
                let ds =
                  match abs b with
                  | 2 -> Model.fmt_bin x
                  | 8 -> Model.fmt_oct x
                  | _ -> Model.fmt_hex x
                in
                let lay = Model.pad_integral flags (Model.fmt_digit_count (n_of_int bpd) x) (n_of_int 2) in
                "["
                ^ String.make (int_of_n lay.Model.l_fill) fill
                ^ (if lay.Model.l_plus then "+" else "")
                ^ (if lay.Model.l_prefix then prefix_of b else "")
                ^ String.make (int_of_n lay.Model.l_zeros) '0'
                ^ m_digits_string (b < 0) ds
                ^ String.make (int_of_n lay.Model.l_back) fill
                ^ "]")
            fmtf_specs))

(* ------------------------------------------------------------ nat cases *)
let nreg = 16

let trunc s = if String.length s > 400 then String.sub s 0 400 ^ "..." else s

exception Bad of string * string (* kind, message *)

let check ops res want mres =
  if res <> want then raise (Bad ("prop", Printf.sprintf "op=[%s] impl=[%s] exact=[%s] model=[%s]" ops (trunc res) (trunc want) (trunc mres)))
  else if mres <> res then raise (Bad ("corr", Printf.sprintf "op=[%s] impl=[%s] model=[%s]" ops (trunc res) (trunc mres)))

let run_nat (c : case) =
  let oregs = Array.make nreg ozero in
  let mregs = Array.make nreg Model.zERO in
  List.iteri
    (fun i l ->
      try
        if l = "HANG" then raise (Bad ("prop", "implementation did not terminate (watchdog)"));
        if String.length l >= 5 && (String.sub l 0 5 = "PANIC" || String.sub l 0 5 = "CRASH") then
          raise (Bad ("prop", "implementation panicked/crashed: " ^ trunc l));
        let ops, res = split_arrow l in
        let t = Array.of_list (split_ws ops) in
        let r i = int_of_string t.(i) mod nreg in
        let k i = Z.of_string t.(i) in
        stat ("op_" ^ t.(0)) 1;
        let set_both d ov mv =
          oregs.(d) <- ov;
          mregs.(d) <- mv;
          if ov = ONaN then stat "nan_results" 1;
          (match ov with OVal (m, _) when Z.numbits m > 64 -> stat "multi_digit_results" 1 | _ -> ());
          if not (Model.check_inv mv) then raise (Bad ("corr", Printf.sprintf "op=[%s]: model result violates check_inv" ops));
          check ops res (o_desc ov) (m_desc mv)
        in
        let mask bits v = Z.logand v (Z.pred (Z.shift_left Z.one bits)) in
        match t.(0) with
        | "from8" -> let v = mask 8 (k 2) in set_both (r 1) (norm v Z.zero) (Model.from_u8 (n_of_z v))
        | "from16" -> let v = mask 16 (k 2) in set_both (r 1) (norm v Z.zero) (Model.from_u16 (n_of_z v))
        | "from32" -> let v = mask 32 (k 2) in set_both (r 1) (norm v Z.zero) (Model.from_u32 (n_of_z v))
        | "from64" -> let v = mask 64 (k 2) in set_both (r 1) (norm v Z.zero) (Model.from_u64 (n_of_z v))
        | "from128" -> let v = mask 128 (k 2) in set_both (r 1) (norm v Z.zero) (Model.from_u128 (n_of_z v))
        | "dig" ->
          let ds = digits_of_string t.(2) in
          set_both (r 1) (o_of_digits ds) (Model.from_le_digits (List.map n_of_z ds))
        | "add" -> (
          let a, b = (r 2, r 3) in
          match o_add oregs.(a) oregs.(b) with
          | None ->
            let ms = if m_far mregs.(a) mregs.(b) then "skip" else "model-not-far" in
            check ops res "skip" ms
          | Some ov ->
            if m_far mregs.(a) mregs.(b) then raise (Bad ("corr", "model operands far apart, oracle's are not"));
            set_both (r 1) ov (Model.nat_add mregs.(a) mregs.(b)))
        | "shl" | "shl32" -> set_both (r 1) (o_shl oregs.(r 2) (k 3)) (Model.nat_shl mregs.(r 2) (n_of_z (k 3)))
        | "shr" | "shr32" -> set_both (r 1) (o_shr oregs.(r 2) (k 3)) (Model.nat_shr mregs.(r 2) (n_of_z (k 3)))
        | "clone" | "clonefrom" -> set_both (r 1) oregs.(r 2) mregs.(r 2)
        | "cmp" ->
          let a, b = (r 1, r 2) in
          let name = function None -> "none" | Some c -> if c < 0 then "lt" else if c = 0 then "eq" else "gt" in
          let oc = name (o_cmp oregs.(a) oregs.(b)) in
          let oe = o_eq oregs.(a) oregs.(b) in
          let mc =
            match Model.partial_cmp mregs.(a) mregs.(b) with
            | None -> "none"
            | Some Model.Lt -> "lt"
            | Some Model.Eq -> "eq"
            | Some Model.Gt -> "gt"
          in
          let me = Model.nat_eqb mregs.(a) mregs.(b) in
          let mh = Model.hash_key mregs.(a) = Model.hash_key mregs.(b) in
          (* hash values: equal values must hash equally; a collision of
             unequal values is not an error *)
          let ih = match split_ws res with [ _; _; h ] -> h | _ -> "h=?" in
          let b2s b = if b then "1" else "0" in
          if oe && ih <> "h=1" then raise (Bad ("prop", Printf.sprintf "op=[%s]: equal values hash differently: impl=[%s]" ops res));
          if me <> mh then raise (Bad ("corr", Printf.sprintf "op=[%s]: model eqb=%b but hash keys equal=%b" ops me mh));
          check ops res (Printf.sprintf "%s e=%s %s" oc (b2s oe) ih) (Printf.sprintf "%s e=%s %s" mc (b2s me) ih)
        | "to64" | "to128" ->
          let bits = if t.(0) = "to64" then 64 else 128 in
          let want = match o_small_val oregs.(r 1) bits with Some v -> "ok " ^ Z.to_string v | None -> "err" in
          let mo = if bits = 64 then Model.try_into_u64 mregs.(r 1) else Model.try_into_u128 mregs.(r 1) in
          check ops res want (match mo with Some v -> "ok " ^ string_of_n v | None -> "err")
        | "f64" ->
          (* expected: Flocq's correctly rounded conversion of the oracle's value m * 2^e (extracted
             [f64_norm_int] = binary_normalize, theorem C12_nat_to_f64); the hand-written integer rounding
             [o_f64] must agree with it *)
          let spec = flocq_f64 oregs.(r 1) in
          if spec <> o_f64 oregs.(r 1) then
            raise (Bad ("corr", Printf.sprintf "op=[%s]: Flocq conversion %s differs from the integer oracle %s" ops spec (o_f64 oregs.(r 1))));
          stat "f64_conv_flocq" 1;
          check ops res spec (Z.format "%016x" (z_of_n (Model.to_f64_bits mregs.(r 1))))
        | "fmt" ->
          let want = match o_fmt oregs.(r 1) with Some s -> s | None -> "skip" in
          let ms = match m_fmt mregs.(r 1) with Some s -> s | None -> "skip" in
          check ops res want ms
        | "fmtf" ->
          let o = o_fmtf oregs.(r 1) in
          let want = match o with Some s -> s | None -> "skip" in
          let ms = match m_fmtf mregs.(r 1) o with Some s -> s | None -> "skip" in
          check ops res want ms
        | o -> failwith ("unknown op " ^ o)
      with Bad (kind, msg) -> raise (Bad (kind, Printf.sprintf "%d %s" i msg)))
    c.lines

(* ------------------------------------------------------- Saturating<uW> *)
let run_sat (w : int) (c : case) =
  let wn = n_of_int w in
  let maxv = Z.pred (Z.shift_left Z.one w) in
  let oregs = Array.make nreg Z.zero in
  let mregs = Array.make nreg Model.N0 in
  List.iteri
    (fun i l ->
      try
        if String.length l >= 5 && (String.sub l 0 5 = "PANIC" || String.sub l 0 5 = "CRASH" || l = "HANG") then
          raise (Bad ("prop", "implementation panicked/crashed: " ^ trunc l));
        let ops, res = split_arrow l in
        let t = Array.of_list (split_ws ops) in
        let r i = int_of_string t.(i) mod nreg in
        let k i = Z.of_string t.(i) in
        stat ("sat_" ^ t.(0)) 1;
        let d = r 1 in
        let sat v = if Z.geq v maxv then maxv else v in
        (* exact semantics: the marker absorbs; a result that does not fit is the marker *)
        let o_shl_ a kk =
          if Z.sign a = 0 then Z.zero
          else if Z.geq kk (Z.of_int w) then maxv
          else sat (Z.shift_left a (Z.to_int kk))
        in
        let o_shr_ a kk = if Z.equal a maxv then maxv else Z.shift_right a (Z.to_int kk) in
        let ov, mv =
          match t.(0) with
          | "from" -> (k 2, Some (Model.su_from_u32 (n_of_z (k 2))))
          | "raw" -> (k 2, Some (n_of_z (k 2)))
          | "add" -> (sat (Z.add oregs.(r 2) oregs.(r 3)), Some (Model.su_add wn mregs.(r 2) mregs.(r 3)))
          | "addassign" -> (sat (Z.add oregs.(d) oregs.(r 2)), Some (Model.su_add wn mregs.(d) mregs.(r 2)))
          | "sub" ->
            let a, b = (oregs.(r 2), oregs.(r 3)) in
            if (not (Z.equal a maxv)) && Z.lt a b then (Z.minus_one, None)
            else ((if Z.equal a maxv then maxv else Z.sub a b), Some (Model.su_sub wn mregs.(r 2) mregs.(r 3)))
          | "shl" -> (o_shl_ oregs.(r 2) (k 3), Some (Model.su_shl wn mregs.(r 2) (n_of_z (k 3))))
          | "shlassign" -> (o_shl_ oregs.(d) (k 2), Some (Model.su_shl wn mregs.(d) (n_of_z (k 2))))
          | "shr" ->
            if Z.geq (k 3) (Z.of_int w) && not (Z.equal oregs.(r 2) maxv) then (Z.minus_one, None)
            else (o_shr_ oregs.(r 2) (k 3), Some (Model.su_shr wn mregs.(r 2) (n_of_z (k 3))))
          | "shrassign" ->
            if Z.geq (k 2) (Z.of_int w) && not (Z.equal oregs.(d) maxv) then (Z.minus_one, None)
            else (o_shr_ oregs.(d) (k 2), Some (Model.su_shr wn mregs.(d) (n_of_z (k 2))))
          | o -> failwith ("unknown op " ^ o)
        in
        match mv with
        | None -> check ops res "skip" "skip"
        | Some mv ->
          oregs.(d) <- ov;
          mregs.(d) <- mv;
          if Z.equal ov maxv then stat "sat_marker_results" 1;
          check ops res (Z.to_string ov) (string_of_n mv)
      with Bad (kind, msg) -> raise (Bad (kind, Printf.sprintf "%d %s" i msg)))
    c.lines

(* ------------------------------------------------------------------ F64 *)
(* the counting type F64: IEEE double addition / subtraction and scaling by
   exact powers of two; oracle = OCaml's doubles (same IEEE semantics, [ldexp]
   for the power of two) *)
let int64_of_hex (h : string) : int64 =
  let v = Z.of_string_base 16 h in
  Z.to_int64 (if Z.geq v (Z.shift_left Z.one 63) then Z.sub v (Z.shift_left Z.one 64) else v)

let run_f64 (c : case) =
  let regs = Array.make nreg 0.0 in
  (* the extracted model (coq/Num/F64Count.v, Flocq binary64) on bit patterns *)
  let mregs = Array.make nreg (mz_of_z Z.zero) in
  List.iteri
    (fun i l ->
      try
        if String.length l >= 5 && (String.sub l 0 5 = "PANIC" || String.sub l 0 5 = "CRASH" || l = "HANG") then
          raise (Bad ("prop", "implementation panicked/crashed: " ^ trunc l));
        let ops, res = split_arrow l in
        let t = Array.of_list (split_ws ops) in
        let r i = int_of_string t.(i) mod nreg in
        stat ("f64_" ^ t.(0)) 1;
        let d = r 1 in
        let pow2 k = if k > 1100 then infinity else if k < -1100 then 0.0 else ldexp 1.0 k in
        let v =
          match t.(0) with
          | "from" -> Z.to_float (Z.of_string t.(2))
          | "raw" -> Int64.float_of_bits (int64_of_hex t.(2))
          | "add" -> regs.(r 2) +. regs.(r 3)
          | "sub" -> regs.(r 2) -. regs.(r 3)
          | "shl" -> if regs.(r 2) = 0.0 then regs.(r 2) else regs.(r 2) *. pow2 (int_of_string t.(3))
          | "shr" -> regs.(r 2) *. pow2 (-int_of_string t.(3))
          | o -> failwith ("unknown op " ^ o)
        in
        regs.(d) <- v;
        let mv =
          match t.(0) with
          | "from" -> Model.f64c_bits_from_u32 (n_of_z (Z.of_string t.(2)))
          | "raw" -> mz_of_z (Z.of_string_base 16 t.(2))
          | "add" -> Model.f64c_bits_add mregs.(r 2) mregs.(r 3)
          | "sub" -> Model.f64c_bits_sub mregs.(r 2) mregs.(r 3)
          | "shl" -> Model.f64c_bits_shl mregs.(r 2) (n_of_z (Z.of_string t.(3)))
          | "shr" -> Model.f64c_bits_shr mregs.(r 2) (n_of_z (Z.of_string t.(3)))
          | o -> failwith ("unknown op " ^ o)
        in
        mregs.(d) <- mv;
        let bits x = Printf.sprintf "%016Lx" (Int64.bits_of_float x) in
        (* NaN payload/sign is not determined by IEEE 754 *)
        let impl_nan = String.length res = 16 && Float.is_nan (Int64.float_of_bits (int64_of_hex res)) in
        let want = if Float.is_nan v then (if impl_nan then res else "nan") else bits v in
        let ms = if Model.f64c_bits_is_nan mv then (if impl_nan then res else "nan") else Z.format "%016x" (z_of_mz mv) in
        if Model.f64c_bits_is_nan mv then stat "f64_nan_results" 1
        else if ms = "7ff0000000000000" then stat "f64_inf_results" 1;
        check ops res want ms
      with Bad (kind, msg) -> raise (Bad (kind, Printf.sprintf "%d %s" i msg)))
    c.lines

let () =
  iter_cases stdin (fun c ->
      stat "cases" 1;
      stat "steps" (List.length c.lines);
      let kind = match param c "kind" with Some k -> k | None -> "nat" in
      stat ("cases_" ^ kind) 1;
      try
        (match kind with
        | "sat64" -> run_sat 64 c
        | "sat128" -> run_sat 128 c
        | "f64" -> run_f64 c
        | _ -> run_nat c);
        verdict_ok c
      with Bad (kind, msg) ->
        let step, text =
          match String.index_opt msg ' ' with
          | Some j -> ((try int_of_string (String.sub msg 0 j) with _ -> 0), String.sub msg (j + 1) (String.length msg - j - 1))
          | None -> (0, msg)
        in
        verdict_bad c step kind text);
  dump_stats ()
