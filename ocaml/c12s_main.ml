(* C12s driver: model counting and uniform picking through SatCountCache objects that are kept
   across operations (harness ops SATC / PICKUNIC of harness/src/bin/h_dd.rs), cases with snap=each.

   Reads the trace of h_dd (a snapshot follows every operation), lifts every snapshot into the
   extracted [Model.snap] and keeps, per cache id and number type, the extracted model of the cache
   object (coq/DD/SatCount.v [scache], coq/DD/SatCache.v [caches]).

   SATC <cid> h<k> <vars> <type> -> <type> <value> | M <id>[~]=<value> ...
     (prop C12) the value is the exact number of satisfying assignments of the handle's value table over
                [vars] variables in the number type (Natural: the number; Saturating<uW>: the number resp.
                the marker; F64: the correctly rounded number, diagrams with at most 53 levels); for
                vars < levels whenever the function depends on at most [vars] variables;
     (corr C12) the extracted [count_event] (= [sat_query]: [clear_if_invalid] with the snapshot's gc_count,
                then the counting recursion [walkc] over the extracted model of the number type, on the
                model's own copy of the cache) returns the same value AND leaves the same cache map
                (keys and values) as the real cache's public [map] field.
   PICKUNIC <cid> h<k> <seed> <count> -> hist <cube>=<n> ... | M ...
     (prop C13) ocaml/pick.ml: only models, none iff unsatisfiable, frequencies; frequency of every cube
                against the model's exact branch-probability product;
     (corr C13) every observed cube is replayed by the extracted [pick_cube]; at the nodes where the
                closure of pick_cube_uniform_edge is called the extracted [uni_trace] performs the two
                [sat_count_edge] calls on the model's copy of the F64 cache; afterwards the cache map
                must equal the real one.
   SATVALID h<k> -> sat=<0|1> valid=<0|1>      (prop C02) against the value table.
   Every pair of consecutive snapshots: (corr C12) the extracted [obs_ok_b]: gc_count / reorder_count do
   not decrease, a reordering shows in gc_count, and an unchanged gc_count means that every node of the
   earlier table is still stored under its id with the same children (hypothesis [step_ok] / [hist_valid]
   of the theorems C12_cache_*; theorem C12_cache_obs_ok).

   Usage: driver --props C12,C13,C02 *)
open Conv
open Dd_types

let props : string list ref = ref []
let () =
  let rec go = function
    | "--props" :: p :: r -> props := String.split_on_char ',' p; go r
    | _ :: r -> go r
    | [] -> ()
  in
  go (Array.to_list Sys.argv)
let wants p = !props = [] || List.mem p !props

(* ---- numbers ------------------------------------------------------------ *)
let show_n (x : Model.n) = Z.to_string (z_of_n x)
let hex16 (z : Model.z) = Z.format "%016x" (z_of_mz z)
let show_f64 (x : Model.binary64) = hex16 (Model.bits_of_b64 x)
(* Display of a Natural: `?` for NaN, else the decimal number (mantissa digits little endian, base 2^64) *)
let show_nat (x : Model.natural) =
  if Model.is_nan x then "?"
  else
    let m = List.fold_right (fun d acc -> Z.add (z_of_n d) (Z.shift_left acc 64)) x.Model.digits Z.zero in
    Z.to_string (Z.shift_left m (Z.to_int (z_of_n x.Model.expo)))

(* cache id of the harness (usize) <-> model (positive); cache_all = odd harness id *)
let cid_pos (c : int) = pos_of_z (Z.of_int (c + 1))
let alls (p : Model.positive) = match p with Model.XO _ -> true | _ -> false

(* the model's cache map rendered like the harness does: sorted "id[~]=value" *)
let render_map (kname : string) (show : 'a -> string) (m : 'a Model.PositiveMap.t) : string list =
  let l =
    List.map
      (fun (k, v) ->
        let id, tag =
          if kname = "bcdd" then (match k with Model.XO q -> (q, false) | Model.XI q -> (q, true) | Model.XH -> (Model.XH, false))
          else (k, false) in
        (Z.to_int (Z.pred (z_of_pos id)), tag, show v))
      (Model.PositiveMap.elements m) in
  List.map (fun (id, tag, v) -> Printf.sprintf "%d%s=%s" id (if tag then "~" else "") v) (List.sort compare l)

(* result "<head> | M a=b c=d" -> (head, [a=b; c=d] re-sorted like render_map) *)
let split_map (res : string) : string * string list =
  match split_bar res with
  | [ h; m ] ->
    let ents = (match split_ws m with "M" :: r -> r | r -> r) in
    let key e =
      match String.split_on_char '=' e with
      | [ k; v ] ->
        let tag = String.length k > 0 && k.[String.length k - 1] = '~' in
        let id = int_of_string (if tag then String.sub k 0 (String.length k - 1) else k) in
        (id, tag, v)
      | _ -> (-1, false, e) in
    (h, List.map (fun (id, tag, v) -> Printf.sprintf "%d%s=%s" id (if tag then "~" else "") v) (List.sort compare (List.map key ents)))
  | h :: _ -> (h, [])
  | [] -> ("", [])

let diff_maps (a : string list) (b : string list) : string =
  let only x y = List.filter (fun e -> not (List.mem e y)) x in
  let cut l = String.concat " " (List.filteri (fun i _ -> i < 6) l) in
  Printf.sprintf "real map has %d entries, model %d; only real: [%s]; only model: [%s]" (List.length a) (List.length b)
    (cut (only a b)) (cut (only b a))

let max_of w = Z.pred (Z.shift_left Z.one w)

let render_cube (cb : bool option list) : string =
  "cube:" ^ String.concat "" (List.map (function None -> "-" | Some true -> "1" | Some false -> "0") cb)
let parse_cube_list (s : string) : bool option list option =
  if s = "none" then None
  else
    let b = String.sub s 5 (String.length s - 5) in
    Some (List.init (String.length b) (fun i -> match b.[i] with '0' -> Some false | '1' -> Some true | _ -> None))

let () =
  iter_cases stdin (fun c ->
      Pick.reset ();
      let kname = match param c "kind" with Some k -> k | None -> "bdd" in
      let failed = ref false in
      let fail step prop kind msg =
        stat ("bad_" ^ prop) 1;
        if Sys.getenv_opt "DD_DEBUG" <> None then Printf.eprintf "[%s step %d] %s %s: %s\n" (case_id c) step prop kind msg;
        if (not !failed) && wants prop then (
          failed := true;
          verdict_bad c step kind (Printf.sprintf "prop=%s %s" prop msg))
      in
      let check prop = stat ("chk_" ^ prop) 1 in
      (* the model's copies of the kept caches *)
      let cs_u64 : Model.n Model.caches ref = ref Model.PositiveMap.empty in
      let cs_u128 : Model.n Model.caches ref = ref Model.PositiveMap.empty in
      let cs_f64 : Model.binary64 Model.caches ref = ref Model.PositiveMap.empty in
      let cs_nat : Model.natural Model.caches ref = ref Model.PositiveMap.empty in
      let prev : (string * psnap) option ref = ref None in
      let vts : (int, vt option) Hashtbl.t = Hashtbl.create 16 in     (* value tables of the current snapshot *)
      let pending : (int * string list * string) option ref = ref None in
      let events = ref 0 in

      let table_of (ps : psnap) (slot : int) : vt option =
        match Hashtbl.find_opt vts slot with
        | Some t -> t
        | None ->
          let t = (match List.assoc_opt slot ps.handles with Some e -> value_table ps e | None -> None) in
          Hashtbl.replace vts slot t; t in

      let mgr_of (ps : psnap) : Model.mgr =
        { Model.m_snap = ps.snap; Model.m_gc = n_of_int ps.gc; Model.m_reorder = n_of_int ps.reorder } in

      (* the number of satisfying assignments over [vars] variables, if the property determines it *)
      let exact_count (n : int) (ta : vt) (vars : int) : Z.t option =
        let ones = Array.fold_left (fun acc v -> acc + v) 0 ta in
        if vars >= n then Some (Z.shift_left (Z.of_int ones) (vars - n))
        else (
          let supp = ref 0 in
          for v = 0 to n - 1 do
            let dep = ref false in
            Array.iteri (fun idx x -> if x <> ta.(idx lxor (1 lsl v)) then dep := true) ta;
            if !dep then incr supp
          done;
          if !supp <= vars then Some (Z.shift_right (Z.of_int ones) (n - vars)) else None) in

      let resolve (ps : psnap) (step : int) (toks : string list) (res : string) =
        let n = Array.length ps.l2v in
        match toks with
        | [ "SATC"; cid; a; vars; ty ] ->
          let cid = int_of_string cid and vars = int_of_string vars in
          (match List.assoc_opt (slot_of a) ps.handles, table_of ps (slot_of a) with
           | Some e, Some ta ->
             check "C12"; stat ("c12s_satc_" ^ ty) 1;
             let head, rmap = split_map res in
             let got = (match split_ws head with [ _; v ] -> v | _ -> "?") in
             if vars < n then stat "c12s_vars_below_levels" 1;
             (* (prop) the exact count in the number type *)
             (match exact_count n ta vars with
              | None -> stat "c12s_vars_below_support" 1
              | Some exact ->
                if vars < n then stat "c12s_vars_below_levels_determined" 1;
                let zb = kname = "zbdd" in
                let expect =
                  match ty with
                  | ("u64" | "u128") when Z.sign exact = 0 -> "0"
                  | "u64" -> if (if zb then Z.numbits exact > 64 else vars >= 64) then Z.to_string (max_of 64) else Z.to_string exact
                  | "u128" -> if (if zb then Z.numbits exact > 128 else vars >= 128) then Z.to_string (max_of 128) else Z.to_string exact
                  | "nat" -> Z.to_string exact
                  | "f64" when n <= 53 -> hex16 (Model.f64_count_bits (n_of_z exact))
                  | _ -> "" in
                if expect <> "" && got <> expect then
                  fail step "C12" "prop"
                    (Printf.sprintf "sat_count(%d) as %s on the kept cache %d = %s, exact count %s (%s)" vars ty cid got expect (Z.to_string exact)));
             (* (corr) theorem C12_sat_small_vars: BDD / BCDD with vars below the number of levels and no path longer
                than vars: the integer types return #models * 2^vars / 2^levels without remainder (this covers
                functions whose support is larger than vars, where the property itself says nothing) *)
             if vars < n && kname <> "zbdd" && int_of_nat (Model.height_of ps.snap e.Model.eref) <= vars then (
               stat "c12s_small_vars_height_ok" 1;
               let ones = Array.fold_left (fun acc v -> acc + v) 0 ta in
               let num = Z.shift_left (Z.of_int ones) vars in
               let q = Z.shift_right num n in
               if not (Z.equal (Z.shift_left q n) num) then
                 fail step "C12" "corr" (Printf.sprintf "sat_count(%d): height <= vars but 2^levels does not divide #models * 2^vars (theorem C12_sat_small_vars)" vars)
               else if (ty = "nat" || (ty = "u64" && vars < 64) || (ty = "u128" && vars < 128)) && got <> Z.to_string q then
                 fail step "C12" "corr"
                   (Printf.sprintf "sat_count(%d) as %s = %s, but no path visits more than %d nodes and #models * 2^vars / 2^levels = %s (theorem C12_sat_small_vars)"
                      vars ty got vars (Z.to_string q)));
             (* (corr) the extracted model on its own copy of the cache *)
             let m = mgr_of ps in
             let p = cid_pos cid in
             let replay (type a) (ops : a Model.numops) (cs : a Model.caches ref) (show : a -> string) =
               match Model.count_event ops alls m !cs p (nat vars) e with
               | None -> fail step "C12" "corr" (Printf.sprintf "the extracted sat_query fails on the snapshot (%s)" (String.concat " " toks))
               | Some (v, cs') ->
                 cs := cs';
                 stat "c12s_model_replayed" 1;
                 let mm = render_map kname show (Model.get_cache alls cs' p).Model.c_map in
                 stat "c12s_cache_entries" (List.length mm);
                 if show v <> got then
                   fail step "C12" "corr" (Printf.sprintf "sat_count(%d) as %s on the kept cache %d = %s, the extracted model returns %s" vars ty cid got (show v))
                 else if mm <> rmap then
                   fail step "C12" "corr" (Printf.sprintf "sat_count(%d) as %s: the cache map after the call differs from the model's: %s" vars ty (diff_maps rmap mm)) in
             (match ty with
              | "u64" -> replay (Model.sat_ops (n_of_int 64)) cs_u64 show_n
              | "u128" -> replay (Model.sat_ops (n_of_int 128)) cs_u128 show_n
              | "nat" -> replay Model.nat_ops cs_nat show_nat
              | "f64" -> replay Model.f64_ops cs_f64 show_f64
              | _ -> ())
           | _ -> stat "c12s_unresolved" 1)
        | [ "PICKUNIC"; cid; a; seed; cnt ] ->
          let cid = int_of_string cid in
          (match List.assoc_opt (slot_of a) ps.handles with
           | None -> stat "c12s_unresolved" 1
           | Some e ->
             let head, rmap = split_map res in
             let get s = table_of ps (slot_of s) in
             (* (prop) the predicates of C13 on the histogram *)
             Pick.check ~kname ~n ~ps ~get ~getd:get ~fail ~check step [ "PICKUNI"; a; seed; cnt ] head;
             stat "c12s_pickunic" 1;
             let s = ps.snap in
             let pick_cube ch st e =
               match kname with
               | "bdd" -> Model.pick_cube_bdd ch s st e
               | "bcdd" -> Model.pick_cube_bcdd ch s st e
               | _ -> Model.pick_cube_z ch s st e in
             let view = if kname = "bcdd" then Model.view_bcdd else Model.view_plain in
             let count = match kname with "bdd" -> Model.count_bdd | "bcdd" -> Model.count_bcdd | _ -> Model.count_zbdd in
             let p = cid_pos cid in
             let cache = ref (Model.get_cache alls !cs_f64 p) in
             let cntf = float_of_string cnt in
             let entries = List.filter_map (fun t -> match String.split_on_char '=' t with
                 | [ cs; k ] -> Some (cs, float_of_string k) | _ -> None) (List.tl (split_ws head)) in
             List.iter
               (fun (cstr, k) ->
                 match parse_cube_list cstr with
                 | None -> ()
                 | Some cb ->
                   (match pick_cube (Model.cube_choice s cb) () e with
                    | Some (Some ((cb2, tr), ())) ->
                      if render_cube cb2 <> cstr then
                        fail step "C13" "corr" (Printf.sprintf "pick_cube_uniform returned %s, which the model cannot produce (closest: %s)" cstr (render_cube cb2))
                      else (
                        let num, den = Model.trace_weight view count s tr in
                        if Z.sign (z_of_n den) = 0 then fail step "C13" "corr" "model: zero denominator"
                        else (
                          let pr = Q.to_float (Q.make (z_of_n num) (z_of_n den)) in
                          let exp = cntf *. pr in
                          let tol = 8. *. sqrt exp +. 10. in
                          if abs_float (k -. exp) > tol then
                            fail step "C13" "prop"
                              (Printf.sprintf "pick_cube_uniform with the kept cache %d is biased: cube %s drawn %.0f times, the exact branch probabilities give %.1f +- %.1f" cid cstr k exp tol));
                        (* the closure's sat_count_edge calls on the model's copy of the cache *)
                        match Model.uni_trace Model.f64_ops view !cache (n_of_int ps.gc) s tr with
                        | Some c' -> cache := c'
                        | None -> fail step "C13" "corr" "the extracted uni_trace fails on the snapshot")
                    | _ -> fail step "C13" "corr" (Printf.sprintf "pick_cube_uniform returned %s, the model none/undefined" cstr)))
               entries;
             cs_f64 := Model.PositiveMap.add p !cache !cs_f64;
             let mm = render_map kname show_f64 !cache.Model.c_map in
             stat "c12s_cache_entries" (List.length mm);
             if mm <> rmap then
               fail step "C13" "corr" (Printf.sprintf "pick_cube_uniform: the F64 cache map after the draws differs from the model's: %s" (diff_maps rmap mm)))
        | [ "SATVALID"; a ] ->
          (match table_of ps (slot_of a) with
           | Some ta ->
             check "C02"; stat "c12s_satvalid" 1;
             let sat = Array.exists (fun x -> x <> 0) ta and valid = Array.for_all (fun x -> x = 1) ta in
             let want = Printf.sprintf "sat=%d valid=%d" (if sat then 1 else 0) (if valid then 1 else 0) in
             if res <> want then
               fail step "C02" "prop" (Printf.sprintf "satisfiable/valid of h%d: %s, the value table %s says %s" (slot_of a) res (show_vt ta) want)
           | None -> stat "c12s_unresolved" 1)
        | _ -> ()
      in

      let process_snapshot (step : int) (body : string) =
        stat "snapshots" 1;
        let ps =
          match !prev with
          | Some (b, ps) when b = body -> ps
          | _ ->
            let ps = parse_snapshot kname body in
            Hashtbl.reset vts;
            (* (corr) the epoch discipline between two observations of the manager *)
            (match !prev with
             | Some (_, pp) ->
               check "C12"; stat "c12s_obs_checked" 1;
               if ps.gc <> pp.gc then incr events;
               if not (Model.obs_ok_b (mgr_of pp) (mgr_of ps)) then
                 fail step "C12" "corr"
                   (Printf.sprintf "epoch discipline: gc_count %d -> %d, reorder_count %d -> %d%s (hypothesis of C12_cache_history_*: counters never decrease, a reordering increments gc_count, nodes disappear or change only when gc_count changes)"
                      pp.gc ps.gc pp.reorder ps.reorder
                      (if pp.gc = ps.gc && not (Model.same_table_b pp.snap ps.snap) then " but a node of the earlier table is gone or has other children" else ""))
             | None -> ());
            if not (Model.wf_b ps.snap) then fail step "C12" "corr" "wf_b false on the snapshot (hypothesis of the C12 theorems)";
            prev := Some (body, ps);
            ps in
        (match !pending with
         | Some (i, toks, res) -> pending := None; (try resolve ps i toks res with Failure m -> fail i "C12" "corr" ("driver: " ^ m))
         | None -> ())
      in

      List.iteri
        (fun i l ->
          if l = "HANG" then fail i "C12" "prop" "implementation did not terminate (watchdog)"
          else if starts_with l "PANIC" || starts_with l "CRASH" then fail i "C12" "prop" ("implementation panicked/aborted: " ^ l)
          else
            let ops, res = split_arrow l in
            let toks = split_ws ops in
            stat ("op_" ^ List.hd toks) 1;
            if toks = [ "SNAP" ] then (try process_snapshot i res with Failure m -> fail i "C12" "corr" ("driver: " ^ m))
            else if starts_with res "err skip" || starts_with res "err unsupported" then stat "skipped_ops" 1
            else if starts_with res "err oom" then stat "oom" 1
            else if starts_with res "err" then fail i "C12" "corr" ("harness error: " ^ l)
            else (
              (match !pending with Some _ -> stat "c12s_unresolved" 1 | None -> ());
              match toks with
              | ("SATC" | "PICKUNIC" | "SATVALID") :: _ -> pending := Some (i, toks, res)
              | _ -> pending := None))
        c.lines;
      stat "cases" 1;
      stat "steps" (List.length c.lines);
      stat "c12s_epoch_changes" !events;
      Printf.printf "D %s %s\n" (case_id c) "-";
      if not !failed then verdict_ok c);
  dump_stats ()
