(* C13 driver: cube picking.  Reads the trace of harness/src/bin/h_dd.rs (ops
   PICK / PICKDD / PICKSET / PICKUNI between snapshots), lifts every snapshot
   into the extracted [Model.snap] and, for every pick operation,

   (prop)  evaluates the property's own predicates on what the implementation
           returned (ocaml/pick.ml: nothing iff unsatisfiable, implicant via the
           extracted [cube_implies], call trace, literal-by-literal reference
           walk on the function's value table);
   (corr)  runs the extracted Gallina model of coq/DD/Pick.v on the snapshot and
           compares: [pick_cube] - the cube vector and the levels at which the
           choice function was called, exactly; [pick_cube_dd] /
           [pick_cube_dd_set] - the returned *edge* (the model's get_or_insert
           finds the nodes the implementation created, so the edge must be
           identical and no node may be missing); [pick_cube_uniform] - every
           observed cube must be reproducible by the model (choice = the cube's
           own values) and its frequency must match the model's exact branch
           probability product (trace_weight) within a wide tolerance.
   The hypotheses of the theorems (bdd_ok_b / bcdd_ok_b / zbdd_ok_b, literal
   set = cube diagram) are evaluated on the snapshot; a failure is a corr
   verdict. *)
open Conv
open Dd_types

let () = ignore (Array.length Sys.argv)

type pend = { pstep : int; ptoks : string list; pres : string; pver : (int * int) list }

let render_cube (cb : bool option list) : string =
  "cube:" ^ String.concat "" (List.map (function None -> "-" | Some true -> "1" | Some false -> "0") cb)

let parse_cube_list (s : string) : bool option list option =
  if s = "none" then None
  else
    let b = String.sub s 5 (String.length s - 5) in
    Some (List.init (String.length b) (fun i -> match b.[i] with '0' -> Some false | '1' -> Some true | _ -> None))

let asked_levels (tr : Model.step list) : int list =
  List.filter_map (fun p -> if p.Model.sp_asked then Some (int_of_nat p.Model.sp_level) else None) tr

let nodes_of (s : Model.snap) : int = List.length (Model.PositiveMap.elements s.Model.s_nodes)

let term_with (s : Model.snap) (code : int) : Model.n option =
  List.find_map (fun (t, v) -> if int_of_n v = code then Some t else None) s.Model.s_terms

let () =
  iter_cases stdin (fun c ->
      Pick.reset ();
      let kname = match param c "kind" with Some k -> k | None -> "bdd" in
      let tts : (int, vt) Hashtbl.t = Hashtbl.create 64 in
      let ver : (int, int) Hashtbl.t = Hashtbl.create 64 in
      let version s = try Hashtbl.find ver s with Not_found -> 0 in
      let bump s = Hashtbl.replace ver s (version s + 1) in
      let pending : pend list ref = ref [] in
      let failed = ref false in
      let fail step prop kind msg =
        stat ("bad_" ^ prop) 1;
        if Sys.getenv_opt "DD_DEBUG" <> None then Printf.eprintf "[%s step %d] %s %s: %s\n" (case_id c) step prop kind msg;
        if not !failed then (
          failed := true;
          verdict_bad c step kind (Printf.sprintf "prop=%s %s" prop msg))
      in
      let check prop = stat ("chk_" ^ prop) 1 in

      let resolve (step : int) (ps : psnap) =
        let n = Array.length ps.l2v in
        let s = ps.snap in
        let get sl = Hashtbl.find_opt tts (slot_of sl) in
        let edge_of sl = List.assoc_opt (slot_of sl) ps.handles in
        (* hypotheses of the theorems *)
        let hyp_ok =
          match kname with
          | "bdd" -> Model.bdd_ok_b s
          | "bcdd" -> Model.bcdd_ok_b s
          | _ -> Model.zbdd_ok_b s in
        let pick_cube ch st e =
          match kname with
          | "bdd" -> Model.pick_cube_bdd ch s st e
          | "bcdd" -> Model.pick_cube_bcdd ch s st e
          | _ -> Model.pick_cube_z ch s st e in
        let pick_dd ch st e =
          match kname with
          | "bdd" -> Model.pick_cube_dd_bdd ch s st e
          | "bcdd" -> Model.pick_cube_dd_bcdd ch s st e
          | _ -> Model.pick_cube_dd_z ch s st e in
        let view = if kname = "bcdd" then Model.view_bcdd else Model.view_plain in
        let count = match kname with "bdd" -> Model.count_bdd | "bcdd" -> Model.count_bcdd | _ -> Model.count_zbdd in
        let mask_choice mask = Model.mask_choice (fun l -> (mask lsr int_of_nat l) land 1 = 1) in
        List.iter
          (fun p ->
            let fresh = List.for_all (fun (sl, v) -> version sl = v) p.pver in
            if not fresh then stat "unresolved" 1
            else (
              (* property predicates on the implementation's answer *)
              Pick.check ~kname ~n ~ps ~get ~getd:get ~fail ~check p.pstep p.ptoks p.pres;
              if not hyp_ok then fail p.pstep "C13" "corr" "the snapshot does not satisfy the hypotheses of the C13 theorems (BddOK / BcddOK / ZbddOK)"
              else
                match p.ptoks with
                | [ "PICK"; a; mask ] ->
                  (match edge_of a with
                   | None -> stat "unresolved" 1
                   | Some e ->
                     stat "model_pick" 1;
                     let mask = int_of_string mask in
                     let parts = split_ws p.pres in
                     let impl_calls = List.filter_map (fun t -> match String.split_on_char ':' t with
                         | [ l; _ ] when l <> "cube" -> int_of_string_opt l | _ -> None) (List.tl parts) in
                     (match pick_cube (mask_choice mask) () e with
                      | None -> fail p.pstep "C13" "corr" "model pick_cube undefined on a snapshot that satisfies the hypotheses"
                      | Some None ->
                        if List.hd parts <> "none" then
                          fail p.pstep "C13" "corr" (Printf.sprintf "pick_cube: implementation %s, model none" (List.hd parts))
                      | Some (Some ((cb, tr), ())) ->
                        let mc = render_cube cb in
                        if List.hd parts <> mc then
                          fail p.pstep "C13" "corr" (Printf.sprintf "pick_cube: implementation %s, model %s" (List.hd parts) mc)
                        else if asked_levels tr <> impl_calls then
                          fail p.pstep "C13" "corr"
                            (Printf.sprintf "pick_cube: choice function called at levels [%s], model [%s]"
                               (String.concat " " (List.map string_of_int impl_calls))
                               (String.concat " " (List.map string_of_int (asked_levels tr))))))
                | [ "PICKDD"; dst; a; mask ] ->
                  (match edge_of a, edge_of dst with
                   | Some e, Some d ->
                     stat "model_pickdd" 1;
                     let mask = int_of_string mask in
                     let impl_calls = List.filter_map (fun t -> match String.split_on_char ':' t with
                         | [ l; _ ] -> int_of_string_opt l | _ -> None) (split_ws p.pres) in
                     (match pick_dd (mask_choice mask) () e with
                      | None -> fail p.pstep "C13" "corr" "model pick_cube_dd undefined on a snapshot that satisfies the hypotheses"
                      | Some (((s', r), tr), ()) ->
                        if not (Model.edge_eqb r d) then
                          fail p.pstep "C13" "corr" (Printf.sprintf "pick_cube_dd: implementation returned %s, model %s" (show_edge d) (show_edge r))
                        else if nodes_of s' <> nodes_of s then
                          fail p.pstep "C13" "corr" "pick_cube_dd: the model needs a node that the implementation did not create"
                        else if asked_levels tr <> impl_calls then
                          fail p.pstep "C13" "corr" "pick_cube_dd: the choice function was called at other levels than in the model"
                        else
                          (* same trace as pick_cube with the same choices (theorem pick_dd_same_cube) *)
                          (match pick_cube (mask_choice mask) () e with
                           | Some (Some ((_, tr2), ())) ->
                             if List.map (fun q -> (int_of_nat q.Model.sp_level, q.Model.sp_val)) tr
                                <> List.map (fun q -> (int_of_nat q.Model.sp_level, q.Model.sp_val)) tr2 then
                               fail p.pstep "C13" "corr" "model: pick_cube and pick_cube_dd traces differ"
                           | Some None -> if tr <> [] then fail p.pstep "C13" "corr" "model: pick_cube none but pick_cube_dd has a trace"
                           | None -> fail p.pstep "C13" "corr" "model pick_cube undefined"))
                   | _ -> stat "unresolved" 1)
                | [ "PICKSET"; dst; a; pos; neg ] ->
                  (match edge_of a, edge_of dst with
                   | Some e, Some d ->
                     stat "model_pickset" 1;
                     let pos = int_of_string pos and neg = int_of_string neg in
                     (* the literal set, built with the model's own node constructor, top level first *)
                     let lits =
                       List.filter_map
                         (fun l ->
                           let v = ps.l2v.(l) in
                           let isp = (pos lsr v) land 1 = 1 and isn = (neg lsr v) land 1 = 1 in
                           if kname = "zbdd" then
                             (* ZBDD: positive = [sub, Empty], absent = [sub, sub] (flag = don't care), negative = no node *)
                             (if isp then Some (nat l, false) else if isn then None else Some (nat l, true))
                           else if isp then Some (nat l, true)
                           else if isn then Some (nat l, false)
                           else None)
                         (List.init n (fun l -> l)) in
                     let top, add_lit =
                       match kname with
                       | "bdd" -> (Option.map (fun t -> { Model.eref = Model.RT t; Model.etag = false }) (term_with s 1), Model.add_lit_bdd)
                       | "bcdd" -> (Option.map (fun t -> { Model.eref = Model.RT t; Model.etag = false }) (term_with s 1), Model.add_lit_bcdd)
                       | _ -> (Option.map (fun t -> { Model.eref = Model.RT t; Model.etag = false }) (term_with s 1), Model.add_lit_z) in
                     (match top with
                      | None -> fail p.pstep "C13" "corr" "no true terminal in the snapshot"
                      | Some top ->
                        (match Model.mk_cube add_lit s top lits with
                         | None -> fail p.pstep "C13" "corr" "model mk_cube undefined"
                         | Some (s1, set) ->
                           (* hypothesis of pick_dd_set_eq: the set is a cube diagram with these literals *)
                           (match (if kname = "zbdd" then Model.cube_lits_z (nat (n + 1)) s1 set
                                   else Model.cube_lits view (nat (n + 1)) s1 set) with
                            | Some l2 when List.map (fun (l, b) -> (int_of_nat l, b)) l2 = List.map (fun (l, b) -> (int_of_nat l, b)) lits -> ()
                            | _ -> fail p.pstep "C13" "corr" "model: cube_lits of the constructed literal set differs from the literals");
                           let res =
                             match kname with
                             | "bdd" -> Model.pick_cube_dd_set_bdd s1 e set
                             | "bcdd" -> Model.pick_cube_dd_set_bcdd s1 e set
                             | _ -> Model.pick_cube_dd_set_z s1 e set in
                           (match res with
                            | None -> fail p.pstep "C13" "corr" "model pick_cube_dd_set undefined"
                            | Some ((s2, r), tr) ->
                              if not (Model.edge_eqb r d) then
                                fail p.pstep "C13" "corr"
                                  (Printf.sprintf "pick_cube_dd_set: implementation returned %s, model %s" (show_edge d) (show_edge r))
                              else if nodes_of s2 <> nodes_of s1 then
                                fail p.pstep "C13" "corr" "pick_cube_dd_set: the model needs a node that the implementation did not create"
                              else if kname <> "zbdd" then
                                (* theorem pick_dd_set_eq: same as pick_cube_dd with the set's polarities *)
                                let ch = Model.mask_choice (Model.lit_pol lits) in
                                (match (match kname with
                                    | "bdd" -> Model.pick_cube_dd_bdd ch s1 () e
                                    | _ -> Model.pick_cube_dd_bcdd ch s1 () e) with
                                 | Some (((_, r2), tr2), ()) ->
                                   if not (Model.edge_eqb r r2) || List.length tr <> List.length tr2 then
                                     fail p.pstep "C13" "corr" "model: pick_cube_dd_set differs from pick_cube_dd with the set's polarities"
                                 | None -> fail p.pstep "C13" "corr" "model pick_cube_dd undefined"))))
                   | _ -> stat "unresolved" 1)
                | [ "PICKUNI"; a; seed; cnt ] ->
                  (match edge_of a with
                   | None -> stat "unresolved" 1
                   | Some e ->
                     stat "model_pickuni" 1;
                     let cnt = float_of_string cnt in
                     let entries = List.filter_map (fun t -> match String.split_on_char '=' t with
                         | [ cs; k ] -> Some (cs, float_of_string k) | _ -> None) (List.tl (split_ws p.pres)) in
                     let total = ref 0.0 in
                     List.iter
                       (fun (cs, k) ->
                         match parse_cube_list cs with
                         | None ->
                           (match pick_cube (mask_choice 0) () e with
                            | Some None -> ()
                            | _ -> fail p.pstep "C13" "corr" "pick_cube_uniform returned none, the model a cube")
                         | Some cb ->
                           (* replay the observed cube in the model *)
                           (match pick_cube (Model.cube_choice s cb) () e with
                            | Some (Some ((cb2, tr), ())) ->
                              if render_cube cb2 <> cs then
                                fail p.pstep "C13" "corr"
                                  (Printf.sprintf "pick_cube_uniform returned %s, which the model cannot produce (closest: %s)" cs (render_cube cb2))
                              else (
                                let num, den = Model.trace_weight view count s tr in
                                let pr = Q.to_float (Q.make (z_of_n num) (z_of_n den)) in
                                total := !total +. pr;
                                let exp = cnt *. pr in
                                let tol = 8. *. sqrt exp +. 10. in
                                if Z.sign (z_of_n den) = 0 then fail p.pstep "C13" "corr" "model: zero denominator"
                                else if abs_float (k -. exp) > tol then
                                  fail p.pstep "C13" "prop"
                                    (Printf.sprintf "pick_cube_uniform is biased: cube %s drawn %.0f times, the exact branch probabilities give %.1f +- %.1f" cs k exp tol))
                            | _ -> fail p.pstep "C13" "corr" (Printf.sprintf "pick_cube_uniform returned %s, the model none/undefined" cs)))
                       entries;
                     if !total > 1.0 +. 1e-9 then fail p.pstep "C13" "corr" "model: probabilities of distinct cubes sum to more than 1";
                     (* the model's own uniform picker on a deterministic pseudo-random stream *)
                     let sd = (try int_of_string seed with _ -> 1) in
                     let q = 1 lsl 20 in
                     for j = 0 to 7 do
                       let draws (k : Model.nat) : Model.n * Model.n =
                         let h = Hashtbl.hash (sd, j, int_of_nat k) in
                         (n_of_int (h land (q - 1)), n_of_int q) in
                       let res =
                         match kname with
                         | "bdd" -> Model.pick_uniform_bdd draws s e
                         | "bcdd" -> Model.pick_uniform_bcdd draws s e
                         | _ -> Model.pick_uniform_z draws s e in
                       match res, get a with
                       | Some (Some ((cb, _), _)), Some f ->
                         stat "model_uniform_draws" 1;
                         let arr = Array.of_list cb in
                         if not (Model.cube_implies (nat n)
                                   (fun v -> let v = int_of_nat v in if v < Array.length arr then arr.(v) else None)
                                   (bfun_of_vt n f)) then
                           fail p.pstep "C13" "corr" "model pick_uniform returned a non-model"
                       | Some None, Some f -> if Array.exists (fun x -> x <> 0) f then fail p.pstep "C13" "corr" "model pick_uniform: none for a satisfiable function"
                       | None, _ -> fail p.pstep "C13" "corr" "model pick_uniform undefined"
                       | _ -> ()
                     done)
                | _ -> ()))
          (List.rev !pending);
        pending := []
      in

      let process_snapshot (step : int) (body : string) =
        stat "snapshots" 1;
        let ps = parse_snapshot kname body in
        Hashtbl.reset tts;
        List.iter
          (fun (slot, e) ->
            match value_table ps e with
            | Some t -> Hashtbl.replace tts slot t
            | None -> fail step "C13" "corr" (Printf.sprintf "handle h%d: interpretation undefined (dangling edge)" slot))
          ps.handles;
        resolve step ps
      in

      List.iteri
        (fun i l ->
          if l = "HANG" then fail i "C13" "prop" "implementation did not terminate (watchdog)"
          else if starts_with l "PANIC" || starts_with l "CRASH" then fail i "C13" "prop" ("implementation panicked/aborted: " ^ l)
          else
            let ops, res = split_arrow l in
            let toks = split_ws ops in
            stat ("op_" ^ List.hd toks) 1;
            if starts_with res "err skip" || starts_with res "err unsupported" then stat "skipped_ops" 1
            else if starts_with res "err oom" then stat "oom" 1
            else if starts_with res "err" then fail i "C13" "corr" ("harness error: " ^ l)
            else
              match toks with
              | [ "SNAP" ] -> (try process_snapshot i res with Failure m -> fail i "C13" "corr" ("driver: " ^ m))
              | [ "PICK"; a; _ ] | [ "PICKUNI"; a; _; _ ] ->
                pending := { pstep = i; ptoks = toks; pres = res; pver = [ (slot_of a, version (slot_of a)) ] } :: !pending
              | [ "PICKDD"; dst; a; _ ] | [ "PICKSET"; dst; a; _; _ ] ->
                bump (slot_of dst);
                pending := { pstep = i; ptoks = toks; pres = res;
                             pver = [ (slot_of a, version (slot_of a)); (slot_of dst, version (slot_of dst)) ] } :: !pending
              | ("VARS" | "ORDER" | "ORDERSEQ" | "GC" | "DROPALL") :: _ -> ()
              | [ ("DROP" | "DROPT"); a ] -> bump (slot_of a)
              | _ :: dst :: _ when starts_with dst "h" -> bump (slot_of dst)
              | _ -> ())
        c.lines;
      stat "cases" 1;
      stat "steps" (List.length c.lines);
      Printf.printf "D %s %s\n" (case_id c) "-";
      if not !failed then verdict_ok c);
  dump_stats ()
