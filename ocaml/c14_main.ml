(* C14 driver (second pass over the capacity-sweep traces of harness/src/bin/h_dd.rs).

   For every case (one script at one capacity, snapshot after every op):
   - no PANIC / CRASH / HANG line (an out-of-memory condition must surface as an error value);
   - header [retry_at=<k>]: from op index k on (the retry of the script after DROPALL; GC
     on the same manager, issued only when the capacity is at least the measured need)
     no operation may fail with out-of-memory;
   - kind=bdd, cap < 100 (no background collector below 100 slots): the extracted bounded
     model of coq/Mgr/Oom.v (no cache) is run on the snapshot taken right before each
     NOT / binary operator / ITE / VAR / NVAR with the case's capacity and must predict
     the implementation exactly: out-of-memory or not (by oom_exact this does not depend
     on the recursor or the interleaving: it is decided by whether the table of the
     unbounded run fits), the number of stored nodes afterwards, and the value table of
     the result.  With one thread (sequential recursor, deterministic allocation
     sequence) also the number of nodes stored after a FAILED run - the garbage it leaves
     behind - is predicted; with several threads the store must be full after a failure.
     [bdd_ok_b] (the hypothesis of the theorems) must hold on every such snapshot.
   - C14x (ownership): for every such NOT / binary operator / ITE (failing ones: with one
     thread only, the garbage depends on the interleaving otherwise) the extracted ownership
     model of coq/Mgr/OomOwn.v (tokens, guards, reference counts; guard placement of the
     code) is run on the same snapshot ([own_inv_b] = the hypothesis CInv of the C14_own_*
     theorems must hold on it): same outcome as the bounded model; afterwards (a result is
     stored in its slot, whose old function is dropped: [own_put]) it must own exactly the
     harness's handles (BALANCE), and the table it predicts - every stored node (the
     garbage of a failed run included) with its level, its children up to renaming and its
     REFERENCE COUNT - must be the table the real manager shows after the operation.
     (GLUE: decided by the EXTRACTED, PROVED checker [Model.iso_core] of coq/DD/IsoCheck.v with reference counts,
     onto, no fixed ids: a bijective renaming of the node ids under which level, stored level, children, tags and
     reference count of every node agree, C20_iso_check_sound / _complete; the former hand-written [profile]
     comparison words the message when the checker rejects - statistic [iso_disagree] if it finds no difference -
     and is run on every accepted table as well when GLUE_CROSS=1 is set)
   - C14y (other rule sets): kind=bcdd / zbdd (cap < 100) and kind=mtbdd (cap < 100 or cap >= 4096: no
     background collection; header field tcap = capacity of the terminal store): the extracted bounded
     models of coq/Mgr/OomBcdd.v, OomZbdd.v, OomMtbdd.v (no cache, sequential recursor) are run on the
     snapshot before each operation they cover - bcdd: NOT / binary operator / ITE / VAR / NVAR; zbdd: UNION /
     INTSEC / DIFF / NOT / binary operator / ITE / SINGLETON / MAKENODE (= singleton, then make_node); mtbdd:
     ADD .. MAX / ITE / CONSTN / VAR / RESTRICT (= the harness's cube construction 1, var, mul, 1 - x step by
     step, then restrict; every step through the bounded model, two budgets) - and must predict
     out-of-memory or not, the stored nodes (mtbdd: and stored terminals) afterwards - after a failure the
     garbage, as for bdd - and the value table of the result.  The hypotheses of the theorems
     ([bcok_b]; [zbdd_ok_b] and [zchain_ok_b]; [mt_ok_b]) must hold on every such snapshot.
   - C14z (remaining operations): the extracted bounded models of coq/Mgr/OomBddQ.v (plain BDD: exists / forall /
     unique, apply_exists / apply_forall / apply_unique, restrict, substitute incl. substitute_prepare),
     OomBcddQ.v (the same for BCDD), OomZbddV.v (ZBDD subset0 / subset1 / change, restrict, var / not_var) and
     OomTdd.v (TDD not / 8 operators / ite / var) predict the same observables for EXISTS / FORALL / UNIQUE /
     AEX / AFA / AUQ / RESTRICT / SUBST (bdd, bcdd), SUBSET0 / SUBSET1 / CHANGE / RESTRICT (zbdd) and T3NOT /
     T3AND .. T3IMPS / T3ITE / T3VAR (tdd).  The harness builds the variable set / literal cube of these
     operations itself ([BoolInterp::cube]: t, then for v = n-1 .. 0: var(v)? resp. not_var(v)?, and(acc)?):
     every step of that construction goes through the bounded model as well; the first failing step is the
     outcome, what the earlier steps created stays stored.  A substitution's replacement functions are the
     handles 1000000 + 100 * sid + i of the snapshot (the substitution object owns clones).
     PICKDD / PICKSET (bdd, bcdd, zbdd): pick_cube_dd with the harness's choice function (bit [level] of the
     mask) resp. pick_cube_dd_set on the literal cube the harness builds first (coq/Mgr/OomPick.v). *)
open Conv

(* ---- trace parsing (self-contained copies of the few helpers of ocaml/dd_types.ml that this
   driver needs, so that the C14 driver only depends on coq/Extract/ExC14.v) ------------------ *)
let nat_cache = Array.init 128 nat_of_int
let nat i = if i < 128 then nat_cache.(i) else nat_of_int i
let starts_with s p = String.length s >= String.length p && String.sub s 0 (String.length p) = p
let slot_of s = int_of_string (if starts_with s "h" then String.sub s 1 (String.length s - 1) else s)

let parse_edge (t : string) : Model.edge =
  let n = String.length t in
  let tag = n > 0 && t.[n - 1] = '~' in
  let body = if tag then String.sub t 0 (n - 1) else t in
  let num = String.sub body 1 (String.length body - 1) in
  let r =
    if body.[0] = 'n' then Model.RN (pos_of_z (Z.succ (Z.of_string num)))   (* ids may be 0: shift by one *)
    else Model.RT (n_of_string num) in
  { Model.eref = r; Model.etag = tag }

type psnap = { snap : Model.snap; l2v : int array; handles : (int * Model.edge) list; listed : int; tlisted : int }

(* MTBDD<I64> terminal values as the extracted [i64v] *)
let i64v_of_string (s : string) : Model.i64v =
  match s with
  | "nan" -> Model.INaN
  | "+inf" -> Model.IPlusInf
  | "-inf" -> Model.IMinusInf
  | _ -> Model.INum (mz_of_string s)

let split_bar (s : string) : string list =
  let res = ref [] and cur = Buffer.create 64 in
  let n = String.length s in
  let i = ref 0 in
  while !i < n do
    if !i + 2 < n && s.[!i] = ' ' && s.[!i + 1] = '|' && s.[!i + 2] = ' ' then (
      res := Buffer.contents cur :: !res; Buffer.clear cur; i := !i + 3)
    else (Buffer.add_char cur s.[!i]; incr i)
  done;
  res := Buffer.contents cur :: !res;
  List.rev !res

(* terminal value codes: bdd False = 0, True = 1; bcdd: the single terminal, code 1; zbdd Empty = 0, Base = 1;
   mtbdd: the model's own coding [Model.code] of the value *)
let parse_snapshot (kname : string) (body : string) : psnap =
  let nodes = ref Model.PositiveMap.empty in
  let terms = ref [] and handles = ref [] in
  let v2l = ref [||] and l2v = ref [||] in
  let nn = ref 0 and nt = ref 0 in
  let tcode v =
    match kname, v with
    | "bdd", "False" -> n_of_int 0 | "bdd", "True" -> n_of_int 1
    | "bcdd", _ -> n_of_int 1
    | "zbdd", "Empty" -> n_of_int 0 | "zbdd", "Base" -> n_of_int 1
    | "mtbdd", _ -> Model.code (i64v_of_string v)
    | "tdd", "False" -> n_of_int 0 | "tdd", "Unknown" -> n_of_int 1 | "tdd", "True" -> n_of_int 2
    | _, _ -> failwith ("terminal " ^ v) in
  let kind =
    match kname with
    | "bcdd" -> Model.KBcdd | "zbdd" -> Model.KZbdd | "mtbdd" -> Model.KMtbdd | "tdd" -> Model.KTdd | _ -> Model.KBdd in
  List.iter
    (fun piece ->
      match split_ws piece with
      | "V2L" :: r -> v2l := Array.of_list (List.map int_of_string r)
      | "L2V" :: r -> l2v := Array.of_list (List.map int_of_string r)
      | "N" :: lvl :: id :: stored :: rc :: ch ->
        incr nn;
        let nd = { Model.nlevel = nat (int_of_string lvl); Model.nchildren = List.map parse_edge ch;
                   Model.nstored = nat (int_of_string stored); Model.nrc = n_of_string rc } in
        nodes := Model.PositiveMap.add (pos_of_z (Z.succ (Z.of_string id))) nd !nodes
      | [ "T"; id; v ] ->
        incr nt;
        terms := (n_of_string id, tcode v) :: !terms
      | [ "H"; slot; e ] -> handles := (int_of_string slot, parse_edge e) :: !handles
      | _ -> ())
    (split_bar body);
  let hs = List.rev !handles in
  let snap =
    { Model.s_kind = kind; Model.s_nodes = !nodes; Model.s_terms = List.rev !terms;
      Model.s_v2l = List.map nat (Array.to_list !v2l); Model.s_l2v = List.map nat (Array.to_list !l2v);
      Model.s_handles = List.map (fun (s, e) -> (n_of_int s, e)) hs } in
  { snap; l2v = !l2v; handles = hs; listed = !nn; tlisted = !nt }

type vt = string array       (* index = assignment (bit v = variable v), value = code *)

(* the extracted interpreter [sem_edge] on every assignment *)
let pow3 (n : int) : int = let rec go k acc = if k = 0 then acc else go (k - 1) (3 * acc) in go n 1

(* (tdd: index = assignment in base 3, digit v = child index taken at variable v) *)
let value_table (ps : psnap) (e : Model.edge) : vt option =
  let n = Array.length ps.l2v in
  let tdd = (match ps.snap.Model.s_kind with Model.KTdd -> true | _ -> false) in
  let size = if tdd then pow3 n else 1 lsl n in
  let res = Array.make size "?" in
  let ok = ref true in
  for a = 0 to size - 1 do
    let c (lvl : Model.nat) : Model.nat =
      let l = int_of_nat lvl in
      if tdd then (if l < n then nat (a / pow3 ps.l2v.(l) mod 3) else Model.O)
      else if l < n && (a lsr ps.l2v.(l)) land 1 = 1 then Model.O else Model.S Model.O in
    match Model.sem_edge ps.snap e c with
    | Some v -> res.(a) <- string_of_n v
    | None -> ok := false
  done;
  if !ok then Some res else None

let show_vt (t : vt) =
  let sep = if Array.exists (fun x -> String.length x > 1) t then "," else "" in
  if Array.length t <= 64 then String.concat sep (Array.to_list t)
  else Digest.to_hex (Digest.string (String.concat "," (Array.to_list t)))

let bop_of = function
  | "AND" -> Some Model.OAnd | "OR" -> Some Model.OOr | "XOR" -> Some Model.OXor
  | "EQUIV" -> Some Model.OEquiv | "NAND" -> Some Model.ONand | "NOR" -> Some Model.ONor
  | "IMP" -> Some Model.OImp | "IMPS" -> Some Model.OImpStrict | _ -> None

(* C14x: the stored nodes up to renaming, each with its reference count.  A node's identity is
   (level, identities of its children), a terminal's its id; [tbl] interns the triples and is
   shared by the two snapshots that are compared. *)
let profile (tbl : (int * int list, int) Hashtbl.t) (s : Model.snap) : (int * string) list =
  let memo : (string, int) Hashtbl.t = Hashtbl.create 64 in
  let rec key (e : Model.edge) : int =
    match e.Model.eref with
    | Model.RT t -> - (1 + int_of_n t)
    | Model.RN id ->
      let ids = Z.to_string (z_of_pos id) in
      (match Hashtbl.find_opt memo ids with
       | Some k -> k
       | None ->
         let k =
           match Model.find_node s id with
           | None -> failwith "profile: dangling child"
           | Some nd ->
             let trip = (int_of_nat nd.Model.nlevel, List.map key nd.Model.nchildren) in
             (match Hashtbl.find_opt tbl trip with
              | Some k -> k
              | None -> let k = Hashtbl.length tbl in Hashtbl.add tbl trip k; k) in
         Hashtbl.add memo ids k; k) in
  List.sort compare
    (List.map (fun (id, nd) -> (key { Model.eref = Model.RN id; Model.etag = false }, string_of_n nd.Model.nrc))
       (Model.PositiveMap.elements s.Model.s_nodes))

let glue_cross = Sys.getenv_opt "GLUE_CROSS" <> None
let show_profile l = String.concat " " (List.map (fun (k, rc) -> Printf.sprintf "%d:%s" k rc) l)

type pred = { pcode : int; pcount : int; pfull : int; ptable : vt option; pwhat : string; pdst : int; pstep : int;
              pown : (Model.snap * int) option;
              pterms : int;        (* mtbdd: stored terminals afterwards; -1 = not compared *)
              pexact : bool }      (* the garbage of a failed run is predicted also with several threads
                                      (mtbdd: the algorithms have no parallel recursor) *)

(* ---- C14y: the bounded models of the other rule sets ------------------------------------------ *)
let gcode r = int_of_nat (Model.gres_code r)
let mop_of = function
  | "ADD" -> Some Model.MAdd | "SUB" -> Some Model.MSub | "MUL" -> Some Model.MMul
  | "DIV" -> Some Model.MDiv | "MIN" -> Some Model.MMin | "MAX" -> Some Model.MMax | _ -> None
let zop_of = function
  | "UNION" -> Some Model.ZUnion | "INTSEC" -> Some Model.ZIntsec | "DIFF" -> Some Model.ZDiff | _ -> None
let untagged (r : Model.ref) : Model.edge = { Model.eref = r; Model.etag = false }

(* outcome of a model run: (code, table afterwards, result edge); code 0 = result, 1 = out of memory
   (table at the point of failure), 2 = stuck *)
type outcome = int * Model.snap option * Model.edge option
(* (only the accessors [gres_code] / [gres_snap] / [gres_val] are used: the constructor names of the
   extracted result type depend on the extraction order) *)
let of_gres_ref r : outcome =
  (gcode r, Model.gres_snap r, (match Model.gres_val r with Some (x : Model.ref) -> Some (untagged x) | None -> None))
let of_gres_edge r : outcome =
  (gcode r, Model.gres_snap r, (match Model.gres_val r with Some (x : Model.edge) -> Some x | None -> None))
(* one insertion: outer None = stuck, inner None = out of memory with the manager untouched *)
let of_ins (s : Model.snap) (mk : 'a -> Model.edge) (r : (Model.snap * 'a) option option) : outcome =
  match r with
  | None -> (2, None, None)
  | Some None -> (1, Some s, None)
  | Some (Some (s', x)) -> (0, Some s', Some (mk x))

(* mtbdd RESTRICT as the harness performs it (h_dd.rs, mod mt): cube = product of literals built from
   constant(1), var(v) for v = n-1 .. 0 (always), x * acc resp. (1 - x) * acc; then restrict.  Every
   step through the bounded model; the first failing step is the outcome (what the earlier steps
   created stays stored). *)
let mt_restrict_composite (ncap : Model.nat) (ntcap : Model.nat) (s : Model.snap) (f : Model.ref) (n : int)
    (pos : int) (neg : int) : outcome =
  let exception Out of outcome in
  let step r : Model.snap * Model.ref =
    match gcode r, Model.gres_snap r, Model.gres_val r with
    | 0, Some s', Some (x : Model.ref) -> (s', x)
    | 1, Some s', _ -> raise (Out (1, Some s', None))
    | _ -> raise (Out (2, None, None)) in
  try
    let s1, one =
      match Model.mt_const_cap ntcap s Model.i64_one with
      | Some (s', r) -> (s', r)
      | None -> raise (Out (1, Some s, None)) in
    let st = ref s1 and acc = ref one in
    for v = n - 1 downto 0 do
      let s2, x =
        match Model.mt_var_cap ncap ntcap !st (nat v) with
        | Some r -> step r
        | None -> raise (Out (2, None, None)) in
      st := s2;
      if (pos lsr v) land 1 = 1 then begin
        let s3, a = step (Model.mbin_nc ncap ntcap !st Model.MMul x !acc) in
        st := s3; acc := a
      end else if (neg lsr v) land 1 = 1 then begin
        let s3, nx = step (Model.mbin_nc ncap ntcap !st Model.MSub one x) in
        let s4, a = step (Model.mbin_nc ncap ntcap s3 Model.MMul nx !acc) in
        st := s4; acc := a
      end
    done;
    of_gres_ref (Model.mrestrict_nc ncap !st f !acc)
  with Out o -> o


(* ---- C14z: quantification / restrict / substitute, ZBDD subset ops, TDD ------------------------- *)
exception Out of outcome
let take (o : outcome) : Model.snap * Model.edge =
  match o with
  | (0, Some s', Some e) -> (s', e)
  | (1, st, _) -> raise (Out (1, st, None))
  | _ -> raise (Out (2, None, None))
let of_res r : outcome =
  (int_of_nat (Model.res_code r), Model.res_snap r, (match Model.res_ref r with Some rr -> Some (untagged rr) | None -> None))

(* [BoolInterp::cube(pos, neg)] of the harness: acc = t; for v = n-1 downto 0: var(v)? resp. not_var(v)?, then
   lit.and(acc)?; the intermediate handles are dropped (their nodes stay stored) *)
let cube (mkvar : Model.snap -> int -> bool -> outcome) (conj : Model.snap -> Model.edge -> Model.edge -> outcome)
    (top : Model.edge) (s : Model.snap) (n : int) (pos : int) (neg : int) : Model.snap * Model.edge =
  let st = ref s and acc = ref top in
  for v = n - 1 downto 0 do
    let lit = if (pos lsr v) land 1 = 1 then Some false else if (neg lsr v) land 1 = 1 then Some true else None in
    match lit with
    | None -> ()
    | Some ng ->
      let s1, x = take (mkvar !st v ng) in
      let s2, a = take (conj s1 x !acc) in
      st := s2; acc := a
  done;
  (!st, !acc)

let quant_of = function
  | "EXISTS" | "AEX" -> Some Model.QExists | "FORALL" | "AFA" -> Some Model.QForall
  | "UNIQUE" | "AUQ" -> Some Model.QUnique | _ -> None
let t3_bop_of = function
  | "T3AND" -> Some Model.And | "T3OR" -> Some Model.Or | "T3NAND" -> Some Model.Nand | "T3NOR" -> Some Model.Nor
  | "T3XOR" -> Some Model.Xor | "T3EQUIV" -> Some Model.Equiv | "T3IMP" -> Some Model.Imp
  | "T3IMPS" -> Some Model.ImpStrict | _ -> None

let () =
  iter_cases stdin (fun c ->
      let kname = match param c "kind" with Some k -> k | None -> "bdd" in
      (* sid -> variables of the substitution created by the last successful MKSUBST *)
      let substs : (int, int list) Hashtbl.t = Hashtbl.create 8 in
      let cap = param_int c "cap" (1 lsl 16) in
      let threads = param_int c "threads" 1 in
      let retry_at = param_int c "retry_at" (-1) in
      let tcap = param_int c "tcap" (1 lsl 12) in
      (* below 100 node slots the background collector is disabled; a large store never reaches its threshold *)
      let predictable =
        ((kname = "bdd" || kname = "bcdd" || kname = "zbdd" || kname = "tdd") && cap < 100)
        || (kname = "mtbdd" && (cap < 100 || cap >= 4096)) in
      let ntcap = nat tcap in
      let failed = ref false in
      let fail step kind msg =
        stat "bad_C14" 1;
        if not !failed then (failed := true; verdict_bad c step kind ("prop=C14 " ^ msg)) in
      let prev : psnap option ref = ref None in
      let pending : pred option ref = ref None in
      let opidx = ref 0 in
      let ncap = nat cap in
      List.iteri
        (fun i l ->
          if l = "HANG" then fail i "prop" "implementation did not terminate (watchdog)"
          else if starts_with l "PANIC" || starts_with l "CRASH" then
            fail i "prop" ("implementation panicked/aborted instead of returning an out-of-memory error: " ^ l)
          else
            let ops, res = split_arrow l in
            let toks = split_ws ops in
            match toks with
            | [ "SNAP" ] when not predictable -> stat "snapshots" 1
            | [ "SNAP" ] ->
              (try
                 let ps = parse_snapshot kname res in
                 stat "snapshots" 1;
                 (match !pending with
                  | Some p ->
                    pending := None;
                    stat "predictions" 1;
                    if p.pcode = 1 && threads > 1 && not p.pexact then (
                      (* which branch fails first depends on the interleaving; the store is full *)
                      if ps.listed <> p.pfull then
                        fail p.pstep "prop"
                          (Printf.sprintf "%s at capacity %d failed with out-of-memory but %d nodes are stored afterwards (a full store has %d)"
                             p.pwhat cap ps.listed p.pfull))
                    else if ps.listed <> p.pcount then
                      fail p.pstep "prop"
                        (Printf.sprintf "%s at capacity %d: %d nodes stored afterwards, the bounded model says %d (%s)"
                           p.pwhat cap ps.listed p.pcount (if p.pcode = 1 then "after the out-of-memory error" else "after the result"))
                    else if p.pterms >= 0 && ps.tlisted <> p.pterms then
                      fail p.pstep "prop"
                        (Printf.sprintf "%s at capacity %d / terminal capacity %d: %d terminals stored afterwards, the bounded model says %d (%s)"
                           p.pwhat cap tcap ps.tlisted p.pterms (if p.pcode = 1 then "after the out-of-memory error" else "after the result"))
                    else if p.pcode = 0 then (
                      match p.ptable, List.assoc_opt p.pdst ps.handles with
                      | Some exp, Some e ->
                        (match value_table ps e with
                         | Some got when got = exp -> ()
                         | Some got ->
                           fail p.pstep "prop"
                             (Printf.sprintf "%s at capacity %d: result table %s, the bounded model says %s" p.pwhat cap (show_vt got) (show_vt exp))
                         | None -> fail p.pstep "prop" (Printf.sprintf "%s: result handle dangling" p.pwhat))
                      | _ -> stat "unresolved" 1);
                    (match p.pown with
                     | Some (own_snap, own_toks) when not !failed ->
                       stat (if p.pcode = 1 then "own_predictions" else "own_predictions_ok") 1;
                       stat "iso_extracted_checks" 1;
                       stat "iso_disagree" 0;
                       let accepted = Model.iso_core true true (fun _ -> false) own_snap ps.snap [] <> None in
                       let profiles () =
                         let tbl = Hashtbl.create 64 in
                         let exp = profile tbl own_snap in
                         let got = profile tbl ps.snap in
                         (exp, got) in
                       if accepted && glue_cross then (let exp, got = profiles () in if exp <> got then stat "iso_disagree" 1);
                       if own_toks <> int_of_nat (Model.snap_tokens ps.snap) then
                         fail p.pstep "prop"
                           (Printf.sprintf "%s at capacity %d (%s): the ownership model owns %d edges afterwards, the harness holds %d handles"
                              p.pwhat cap (if p.pcode = 1 then "failed" else "result stored") own_toks (int_of_nat (Model.snap_tokens ps.snap)))
                       else if not accepted then begin
                         let exp, got = profiles () in
                         if exp = got then stat "iso_disagree" 1;
                         fail p.pstep "prop"
                           (Printf.sprintf "%s at capacity %d %s: stored nodes with reference counts afterwards (node:count) %s, the ownership model (every acquired edge released) says %s"
                              p.pwhat cap (if p.pcode = 1 then "failed with out-of-memory" else "returned a result") (show_profile got) (show_profile exp))
                       end
                     | _ -> ())
                  | None -> ());
                 if predictable then (
                   stat ("chk_" ^ kname ^ "_ok") 1;
                   let ok, what =
                     match kname with
                     | "bcdd" -> (Model.bcok_b ps.snap, "bcok_b")
                     | "zbdd" -> (Model.zbdd_ok_b ps.snap && Model.zchain_ok_b ps.snap, "zbdd_ok_b / zchain_ok_b")
                     | "mtbdd" -> (Model.mt_ok_b ps.snap, "mt_ok_b")
                     | "tdd" -> (Model.td_ok_b ps.snap, "td_ok_b")
                     | _ -> (Model.bdd_ok_b ps.snap, "bdd_ok_b") in
                   if not ok then
                     fail i "prop" (what ^ " false on a snapshot (not a well-formed table of its kind: hypothesis of the C14 theorems / state after an error)"));
                 prev := Some ps
               with Failure m -> fail i "corr" ("driver: " ^ m))
            | _ ->
              let k = !opidx in
              incr opidx;
              pending := None;
              let is_oom = starts_with res "err oom" in
              if is_oom then stat "oom" 1;
              (match toks with
               | "MKSUBST" :: sid :: pairs when res = "ok" ->
                 Hashtbl.replace substs (int_of_string sid)
                   (List.map (fun p -> int_of_string (List.hd (String.split_on_char '=' p))) pairs)
               | [ "DROPSUBST"; sid ] -> Hashtbl.remove substs (int_of_string sid)
               | [ "DROPALL" ] -> Hashtbl.reset substs
               | _ -> ());
              if is_oom && retry_at >= 0 && k >= retry_at then
                fail i "prop"
                  (Printf.sprintf "%s fails with out-of-memory in the retry after drop + gc although the capacity %d is at least the measured need %d"
                     ops cap (param_int c "need" (-1)));
              if predictable && not (starts_with res "err skip") then (
                match !prev with
                | None -> ()
                | Some ps ->
                  let href t = match List.assoc_opt (slot_of t) ps.handles with Some e -> Some e.Model.eref | None -> None in
                  let hedge t = List.assoc_opt (slot_of t) ps.handles in
                  let s0 = ps.snap in
                  (* C14y: the other rule sets *)
                  let run_other : (int * outcome) option =
                    match kname, toks with
                    | "bcdd", [ ("NOT" | "NOTO"); dst; a ] ->
                      (match hedge a with Some f -> Some (slot_of dst, of_gres_edge (Model.cnot_nc s0 f)) | None -> None)
                    | "bcdd", [ op; dst; a; b ] when bop_of op <> None ->
                      (match hedge a, hedge b, bop_of op with
                       | Some f, Some g, Some o -> Some (slot_of dst, of_gres_edge (Model.cop_nc ncap false s0 o f g))
                       | _ -> None)
                    | "bcdd", [ "ITE"; dst; a; b; cc ] ->
                      (match hedge a, hedge b, hedge cc with
                       | Some f, Some g, Some h -> Some (slot_of dst, of_gres_edge (Model.cite_nc ncap false s0 f g h))
                       | _ -> None)
                    | "bcdd", [ (("VAR" | "NVAR") as w); dst; v ] ->
                      Some (slot_of dst, of_ins s0 (fun e -> e) (Model.cmk_var_cap ncap s0 (nat (int_of_string v)) (w = "NVAR")))
                    | "zbdd", [ op; dst; a; b ] when zop_of op <> None ->
                      (match href a, href b, zop_of op with
                       | Some f, Some g, Some o -> Some (slot_of dst, of_gres_ref (Model.zset_nc ncap false s0 o f g))
                       | _ -> None)
                    | "zbdd", [ ("NOT" | "NOTO"); dst; a ] ->
                      (match href a with Some f -> Some (slot_of dst, of_gres_ref (Model.znot_nc ncap false s0 f)) | None -> None)
                    | "zbdd", [ op; dst; a; b ] when bop_of op <> None ->
                      (match href a, href b, bop_of op with
                       | Some f, Some g, Some o -> Some (slot_of dst, of_gres_ref (Model.zop_nc ncap false s0 o f g))
                       | _ -> None)
                    | "zbdd", [ "ITE"; dst; a; b; cc ] ->
                      (match href a, href b, href cc with
                       | Some f, Some g, Some h -> Some (slot_of dst, of_gres_ref (Model.zite_nc ncap false s0 f g h))
                       | _ -> None)
                    | "zbdd", [ "SINGLETON"; dst; v ] ->
                      Some (slot_of dst, of_ins s0 untagged (Model.zsingleton_cap ncap s0 (nat (int_of_string v))))
                    | "zbdd", [ "MAKENODE"; dst; v; a; b ] ->
                      (* singleton(var)?, then make_node(var, hi, lo) *)
                      (match href a, href b with
                       | Some hi, Some lo ->
                         (match Model.zsingleton_cap ncap s0 (nat (int_of_string v)) with
                          | None -> Some (slot_of dst, (2, None, None))
                          | Some None -> Some (slot_of dst, (1, Some s0, None))
                          | Some (Some (s1, var)) ->
                            (match Model.zmake_node_cap ncap s1 var hi lo with
                             | None -> Some (slot_of dst, (2, None, None))
                             | Some None -> Some (slot_of dst, (1, Some s1, None))
                             | Some (Some (s2, r)) -> Some (slot_of dst, (0, Some s2, Some (untagged r)))))
                       | _ -> None)
                    | "mtbdd", [ op; dst; a; b ] when mop_of op <> None ->
                      (match href a, href b, mop_of op with
                       | Some f, Some g, Some o -> Some (slot_of dst, of_gres_ref (Model.mbin_nc ncap ntcap s0 o f g))
                       | _ -> None)
                    | "mtbdd", [ "ITE"; dst; a; b; cc ] ->
                      (match href a, href b, href cc with
                       | Some f, Some g, Some h -> Some (slot_of dst, of_gres_ref (Model.mite_nc ncap s0 f g h))
                       | _ -> None)
                    | "mtbdd", [ "CONSTN"; dst; v ] ->
                      Some (slot_of dst, of_ins s0 untagged (Some (Model.mt_const_cap ntcap s0 (i64v_of_string v))))
                    | "mtbdd", [ "VAR"; dst; v ] ->
                      (match Model.mt_var_cap ncap ntcap s0 (nat (int_of_string v)) with
                       | Some r -> Some (slot_of dst, of_gres_ref r)
                       | None -> Some (slot_of dst, (2, None, None)))
                    | "mtbdd", [ "RESTRICT"; dst; a; pos; neg ] ->
                      (match href a with
                       | Some f ->
                         Some (slot_of dst, mt_restrict_composite ncap ntcap s0 f (Array.length ps.l2v)
                                              (int_of_string pos) (int_of_string neg))
                       | None -> None)
                    | _ -> None in
                  (* C14z: quantification / restrict / substitute (bdd), TDD *)
                  let nvars = Array.length ps.l2v in
                  let guard dst (f : unit -> outcome) : (int * outcome) option =
                    Some (slot_of dst, (try f () with Out o -> o)) in
                  let bdd_cube pos neg =
                    let top = match Model.term_of s0 true with
                      | Some t -> untagged (Model.RT t) | None -> raise (Out (2, None, None)) in
                    cube (fun s v ng -> of_ins s untagged (Model.mk_var_cap ncap s (nat v) ng))
                      (fun s x a -> of_res (Model.bin_nc ncap false s Model.OAnd x.Model.eref a.Model.eref))
                      top s0 nvars pos neg in
                  (* the hypotheses of the theorems about a call ([cqcall_ok_b], [zvcall_ok_b]) are evaluated on the
                     table the call is issued in *)
                  let cq_run (s : Model.snap) (k : Model.cqcall) : outcome =
                    stat "chk_cqcall_ok" 1;
                    if not (Model.cqcall_ok_b s k) then raise (Out (3, None, None));
                    of_gres_edge (Model.cq_run_nc ncap false s k) in
                  let zv_run (s : Model.snap) (k : Model.zvcall) : outcome =
                    stat "chk_zvcall_ok" 1;
                    if not (Model.zvcall_ok_b s k) then raise (Out (3, None, None));
                    of_gres_ref (Model.zv_run_nc ncap false s k) in
                  let pkind = (match kname with "bcdd" -> Model.PBcdd | "zbdd" -> Model.PZbdd | _ -> Model.PBdd) in
                  let pick_run (s : Model.snap) (k : Model.pcall) (run : unit -> (unit, Model.edge * Model.step list) Model.gres0) : outcome =
                    stat "chk_pcall_ok" 1;
                    if not (Model.pcall_ok_b pkind s k) then raise (Out (3, None, None));
                    let r = run () in
                    (gcode r, Model.gres_snap r, (match Model.gres_val r with Some (e, _) -> Some e | None -> None)) in
                  let bcdd_cube pos neg =
                    let top = match Model.cget_terminal s0 true with
                      | Some t -> t | None -> raise (Out (2, None, None)) in
                    cube (fun s v ng -> of_ins s (fun e -> e) (Model.cmk_var_cap ncap s (nat v) ng))
                      (fun s x a -> of_gres_edge (Model.cop_nc ncap false s Model.OAnd x a))
                      top s0 nvars pos neg in
                  (* ZBDD: t = tautology(0); var_edge (with its don't-care loop) / default not_var_edge; and = intsec *)
                  let zbdd_cube pos neg =
                    let top = match Model.zconst s0 true with
                      | Some t -> untagged t | None -> raise (Out (2, None, None)) in
                    cube (fun s v ng -> zv_run s (if ng then Model.ZVNotVar (nat v) else Model.ZVVar (nat v)))
                      (fun s x a -> of_gres_ref (Model.zop_nc ncap false s Model.OAnd x.Model.eref a.Model.eref))
                      top s0 nvars pos neg in
                  (* the replacement functions of substitution [sid]: the handles 1000000 + 100 * sid + i *)
                  let subst_pairs (sid : int) : (int * Model.edge) list option =
                    match Hashtbl.find_opt substs sid with
                    | None -> None
                    | Some vars ->
                      let reps = List.mapi (fun i _ -> List.assoc_opt (1_000_000 + sid * 100 + i) ps.handles) vars in
                      if List.exists (fun x -> x = None) reps then None
                      else Some (List.map2 (fun v r -> (v, match r with Some e -> e | None -> assert false)) vars reps) in
                  let run_z : (int * outcome) option =
                    match kname, toks with
                    | "bdd", [ (("EXISTS" | "FORALL" | "UNIQUE") as w); dst; a; mask ] ->
                      (match href a, quant_of w with
                       | Some f, Some q ->
                         guard dst (fun () ->
                             let s1, vars = bdd_cube (int_of_string mask) 0 in
                             of_gres_ref (Model.qrun_nc ncap false s1 (Model.KQuant (q, f, vars.Model.eref))))
                       | _ -> None)
                    | "bdd", [ (("AEX" | "AFA" | "AUQ") as w); op; dst; a; b; mask ] ->
                      (match href a, href b, quant_of w, bop_of op with
                       | Some f, Some g, Some q, Some o ->
                         guard dst (fun () ->
                             let s1, vars = bdd_cube (int_of_string mask) 0 in
                             of_gres_ref (Model.qrun_nc ncap false s1 (Model.KApplyQuant (q, o, f, g, vars.Model.eref))))
                       | _ -> None)
                    | "bdd", [ "RESTRICT"; dst; a; pos; neg ] ->
                      (match href a with
                       | Some f ->
                         guard dst (fun () ->
                             let s1, vars = bdd_cube (int_of_string pos) (int_of_string neg) in
                             of_gres_ref (Model.qrun_nc ncap false s1 (Model.KRestrict (f, vars.Model.eref))))
                       | None -> None)
                    | "bdd", [ "SUBST"; dst; a; sid ] ->
                      (match href a, subst_pairs (int_of_string sid) with
                       | Some f, Some pairs ->
                         guard dst (fun () ->
                             of_gres_ref (Model.qrun_nc ncap false s0
                                            (Model.KSubst (f, List.map (fun (v, e) -> (nat v, e.Model.eref)) pairs, n_of_int 0))))
                       | _ -> None)
                    | "bcdd", [ (("EXISTS" | "FORALL" | "UNIQUE") as w); dst; a; mask ] ->
                      (match hedge a, quant_of w with
                       | Some f, Some q ->
                         guard dst (fun () ->
                             let s1, vars = bcdd_cube (int_of_string mask) 0 in
                             cq_run s1 (Model.CQQuant (q, f, vars)))
                       | _ -> None)
                    | "bcdd", [ (("AEX" | "AFA" | "AUQ") as w); op; dst; a; b; mask ] ->
                      (match hedge a, hedge b, quant_of w, bop_of op with
                       | Some f, Some g, Some q, Some o ->
                         guard dst (fun () ->
                             let s1, vars = bcdd_cube (int_of_string mask) 0 in
                             cq_run s1 (Model.CQApplyQuant (q, o, f, g, vars)))
                       | _ -> None)
                    | "bcdd", [ "RESTRICT"; dst; a; pos; neg ] ->
                      (match hedge a with
                       | Some f ->
                         guard dst (fun () ->
                             let s1, vars = bcdd_cube (int_of_string pos) (int_of_string neg) in
                             cq_run s1 (Model.CQRestrict (f, vars)))
                       | None -> None)
                    | "bcdd", [ "SUBST"; dst; a; sid ] ->
                      (match hedge a, subst_pairs (int_of_string sid) with
                       | Some f, Some pairs ->
                         guard dst (fun () ->
                             cq_run s0 (Model.CQSubst (f, List.map (fun (v, e) -> (nat v, e)) pairs, n_of_int 0)))
                       | _ -> None)
                    | "zbdd", [ (("SUBSET0" | "SUBSET1" | "CHANGE") as w); dst; a; v ] ->
                      (match href a with
                       | Some f ->
                         let o = (match w with "SUBSET0" -> Model.ZSubset0 | "SUBSET1" -> Model.ZSubset1 | _ -> Model.ZChange) in
                         guard dst (fun () -> zv_run s0 (Model.ZVSubset (o, f, nat (int_of_string v))))
                       | None -> None)
                    | "zbdd", [ (("VAR" | "NVAR") as w); dst; v ] ->
                      let v = nat (int_of_string v) in
                      guard dst (fun () -> zv_run s0 (if w = "VAR" then Model.ZVVar v else Model.ZVNotVar v))
                    | "zbdd", [ "RESTRICT"; dst; a; pos; neg ] ->
                      (match href a with
                       | Some f ->
                         guard dst (fun () ->
                             let s1, vars = zbdd_cube (int_of_string pos) (int_of_string neg) in
                             zv_run s1 (Model.ZVRestrict (f, vars.Model.eref)))
                       | None -> None)
                    | ("bdd" | "bcdd" | "zbdd"), [ "PICKDD"; dst; a; cm ] ->
                      (* pick_cube_dd with the harness's choice function: bit [level] of the mask *)
                      (match hedge a with
                       | Some e ->
                         let cm = int_of_string cm in
                         let e = if kname = "bcdd" then e else untagged e.Model.eref in
                         guard dst (fun () ->
                             pick_run s0 (Model.PKDd e)
                               (fun () -> Model.pick_dd_nc pkind ncap s0 (fun l -> (cm lsr (int_of_nat l)) land 1 = 1) e))
                       | None -> None)
                    | ("bdd" | "bcdd" | "zbdd"), [ "PICKSET"; dst; a; pos; neg ] ->
                      (match hedge a with
                       | Some e ->
                         let e = if kname = "bcdd" then e else untagged e.Model.eref in
                         guard dst (fun () ->
                             let mk = (match kname with "bdd" -> bdd_cube | "bcdd" -> bcdd_cube | _ -> zbdd_cube) in
                             let s1, lits = mk (int_of_string pos) (int_of_string neg) in
                             pick_run s1 (Model.PKSet (e, lits)) (fun () -> Model.pick_dd_set_nc pkind ncap s1 e lits))
                       | None -> None)
                    | "tdd", [ "T3NOT"; dst; a ] ->
                      (match href a with
                       | Some f -> Some (slot_of dst, of_gres_ref (Model.trun_nc ncap s0 (Model.TCNot f)))
                       | None -> None)
                    | "tdd", [ op; dst; a; b ] when t3_bop_of op <> None ->
                      (match href a, href b, t3_bop_of op with
                       | Some f, Some g, Some o -> Some (slot_of dst, of_gres_ref (Model.trun_nc ncap s0 (Model.TCBin (o, f, g))))
                       | _ -> None)
                    | "tdd", [ "T3ITE"; dst; a; b; cc ] ->
                      (match href a, href b, href cc with
                       | Some f, Some g, Some h -> Some (slot_of dst, of_gres_ref (Model.trun_nc ncap s0 (Model.TCIte (f, g, h))))
                       | _ -> None)
                    | "tdd", [ "T3VAR"; dst; v ] ->
                      Some (slot_of dst, of_ins s0 untagged (Model.td_var_cap ncap s0 (nat (int_of_string v))))
                    | _ -> None in
                  let is_z = (match run_z with Some _ -> true | None -> false) in
                  if is_z then stat ("predictions_z_" ^ kname) 1;
                  if is_z && (match toks with ("PICKDD" | "PICKSET") :: _ -> true | _ -> false) then stat "predictions_pick" 1;
                  let run =
                    if is_z then (match run_z with Some (d, o) -> Some (d, `O o) | None -> None)
                    else if kname <> "bdd" then (match run_other with Some (d, o) -> Some (d, `O o) | None -> None)
                    else
                    match toks with
                    | [ ("NOT" | "NOTO"); dst; a ] ->
                      (match href a with Some f -> Some (slot_of dst, `R (Model.not_nc ncap false ps.snap f)) | None -> None)
                    | [ op; dst; a; b ] when bop_of op <> None ->
                      (match href a, href b, bop_of op with
                       | Some f, Some g, Some o -> Some (slot_of dst, `R (Model.bin_nc ncap false ps.snap o f g))
                       | _ -> None)
                    | [ "ITE"; dst; a; b; cc ] ->
                      (match href a, href b, href cc with
                       | Some f, Some g, Some h -> Some (slot_of dst, `R (Model.ite_nc ncap false ps.snap f g h))
                       | _ -> None)
                    | [ (("VAR" | "NVAR") as w); dst; v ] ->
                      Some (slot_of dst, `V (Model.mk_var_cap ncap ps.snap (nat (int_of_string v)) (w = "NVAR")))
                    | _ -> None in
                  match run with
                  | None -> ()
                  | Some (dst, r) ->
                    let code, snap', rref =
                      match r with
                      | `R r -> (int_of_nat (Model.res_code r), Model.res_snap r,
                                 (match Model.res_ref r with Some rr -> Some (untagged rr) | None -> None))
                      | `V None -> (2, None, None)
                      | `V (Some None) -> (1, Some ps.snap, None)
                      | `V (Some (Some (s', rr))) -> (0, Some s', Some (untagged rr))
                      | `O o -> o in
                    if kname <> "bdd" then stat ("predictions_" ^ kname) 1;
                    if code = 3 then
                      fail i "corr" (Printf.sprintf "%s: the operands do not satisfy the hypothesis of the theorems (cqcall_ok_b / zvcall_ok_b / pcall_ok_b false)" ops)
                    else if code = 2 then fail i "corr" (Printf.sprintf "%s: the bounded model is stuck (model hypotheses violated)" ops)
                    else (
                      stat (if code = 1 then "model_oom" else "model_ok") 1;
                      if (code = 1) <> is_oom then
                        fail i "prop"
                          (Printf.sprintf "%s at capacity %d with %d stored nodes%s: implementation %s, the bounded model %s"
                             ops cap ps.listed
                             (if kname = "mtbdd" then Printf.sprintf " (terminal capacity %d, %d stored terminals)" tcap ps.tlisted else "")
                             (if is_oom then "reports out-of-memory" else "returns a result")
                             (if code = 1 then "runs out of memory" else "succeeds"))
                      else
                        match snap' with
                        | None -> ()
                        | Some s' ->
                          let cnt = int_of_nat (Model.node_count s') in
                          let tcnt = if kname = "mtbdd" then int_of_nat (Model.term_count s') else -1 in
                          if code = 1 && (cnt > ps.listed || tcnt > ps.tlisted) then (
                            stat "model_oom_with_garbage" 1;
                            if kname <> "bdd" then stat ("model_oom_with_garbage_" ^ kname) 1);
                          if code = 1 && kname <> "bdd" then stat ("model_oom_" ^ kname) 1;
                          if code = 1 && is_z then stat ("model_oom_z_" ^ kname) 1;
                          if code = 1 && is_z && cnt > ps.listed then stat ("model_oom_with_garbage_z_" ^ kname) 1;
                          if code = 1 && kname = "mtbdd" && cnt < cap then stat "model_oom_terminal_store" 1;
                          let tab =
                            match rref with
                            | Some rr -> value_table { ps with snap = s' } rr
                            | None -> None in
                          let own =
                            if kname <> "bdd" then None
                            else if code = 1 && threads > 1 then None      (* the garbage depends on the interleaving *)
                            else
                              let o =
                                match toks with
                                | [ ("NOT" | "NOTO"); _; a ] ->
                                  (match href a with Some f -> Some (Model.own_not ncap ps.snap f) | None -> None)
                                | [ op; _; a; b ] when bop_of op <> None ->
                                  (match href a, href b, bop_of op with
                                   | Some f, Some g, Some o -> Some (Model.own_bin ncap ps.snap o f g)
                                   | _ -> None)
                                | [ "ITE"; _; a; b; cc ] ->
                                  (match href a, href b, href cc with
                                   | Some f, Some g, Some h -> Some (Model.own_ite ncap ps.snap f g h)
                                   | _ -> None)
                                | _ -> None in
                              match o with
                              | None -> None
                              | Some o ->
                                stat "chk_own_inv" 1;
                                if not (Model.own_inv_b ps.snap) then (
                                  fail i "prop" "own_inv_b false on the snapshot before the operation (reference counts not exact: hypothesis CInv of the C14_own theorems)";
                                  None)
                                else if int_of_nat (Model.ores_code o) <> code then (
                                  fail i "corr"
                                    (Printf.sprintf "%s at capacity %d: the bounded model has outcome %d, the ownership model has outcome %d"
                                       ops cap code (int_of_nat (Model.ores_code o)));
                                  None)
                                else
                                  (* a result is stored in the destination slot, whose old function is dropped *)
                                  let o = Model.own_put ps.snap o (match List.assoc_opt dst ps.handles with
                                                                   | Some e -> Some e.Model.eref | None -> None) in
                                  if int_of_nat (Model.ores_code o) = 2 then (
                                    fail i "corr" (Printf.sprintf "%s: the ownership model cannot drop the old content of the destination slot" ops);
                                    None)
                                  else
                                    match Model.own_snap ps.snap o, Model.own_tokens o with
                                    | Some s2, Some t2 -> Some (s2, int_of_nat t2)
                                    | _ -> None in
                          (* C14o: ownership replay for the zero-suppressed and the complement-edge rule sets (coq/Mgr/OomOwnZ.v,
                             OomOwnC.v; theorem families C14_ownz, C14_ownc): after a FAILING operation of a one-thread case the predicted
                             table incl. reference counts and garbage must be the real snapshot up to renaming, and thread 0 must
                             own exactly as many edges as the harness holds inner handles *)
                          let own =
                            if own <> None || (kname <> "zbdd" && kname <> "bcdd") || code <> 1 || threads > 1 || is_z then own
                            else
                              let o =
                                match kname, toks with
                                | "zbdd", [ op; _; a; b ] when zop_of op <> None ->
                                  (match href a, href b, zop_of op with
                                   | Some f, Some g, Some o -> Some (Model.ownz_set ncap ps.snap o f g)
                                   | _ -> None)
                                | "zbdd", [ ("NOT" | "NOTO"); _; a ] ->
                                  (match href a with Some f -> Some (Model.ownz_not ncap ps.snap f) | None -> None)
                                | "zbdd", [ op; _; a; b ] when bop_of op <> None ->
                                  (match href a, href b, bop_of op with
                                   | Some f, Some g, Some o -> Some (Model.ownz_op ncap ps.snap o f g)
                                   | _ -> None)
                                | "zbdd", [ "ITE"; _; a; b; cc ] ->
                                  (match href a, href b, href cc with
                                   | Some f, Some g, Some h -> Some (Model.ownz_ite ncap ps.snap f g h)
                                   | _ -> None)
                                | "bcdd", [ op; _; a; b ] when bop_of op <> None ->
                                  (match hedge a, hedge b, bop_of op with
                                   | Some f, Some g, Some o -> Some (Model.ownc_op ncap ps.snap o f g)
                                   | _ -> None)
                                | "bcdd", [ "ITE"; _; a; b; cc ] ->
                                  (match hedge a, hedge b, hedge cc with
                                   | Some f, Some g, Some h -> Some (Model.ownc_ite ncap ps.snap f g h)
                                   | _ -> None)
                                | _ -> None in
                              match o with
                              | None -> None
                              | Some o ->
                                stat ("chk_own_inv_" ^ kname) 1;
                                let inv = if kname = "zbdd" then Model.ownz_inv_b ps.snap else Model.ownc_inv_b ps.snap in
                                if not inv then (
                                  fail i "prop" (Printf.sprintf "own%s_inv_b false on the snapshot before the operation (reference counts not exact: hypothesis CInv of the C14_own%s theorems)"
                                                   (if kname = "zbdd" then "z" else "c") (if kname = "zbdd" then "z" else "c"));
                                  None)
                                else if int_of_nat (Model.eres_code o) <> code then (
                                  fail i "corr"
                                    (Printf.sprintf "%s at capacity %d: the bounded model has outcome %d, the ownership model (%s) has outcome %d"
                                       ops cap code kname (int_of_nat (Model.eres_code o)));
                                  None)
                                else (
                                  stat ("own_predictions_" ^ kname) 1;
                                  if cnt > ps.listed then stat ("own_predictions_garbage_" ^ kname) 1;
                                  match Model.owne_snap (if kname = "zbdd" then Model.KZbdd else Model.KBcdd) ps.snap o, Model.owne_tokens o with
                                  | Some s2, Some t2 -> Some (s2, int_of_nat t2)
                                  | _ -> None) in
                          pending := Some { pcode = code; pcount = cnt; pfull = max cap ps.listed; ptable = tab; pwhat = ops;
                                            pdst = dst; pstep = i; pown = own; pterms = tcnt;
                                            pexact = (kname = "mtbdd" || kname = "tdd") })))
        c.lines;
      stat "cases" 1;
      stat "steps" (List.length c.lines);
      if not !failed then verdict_ok c);
  dump_stats ()
