(* C15 driver: reads the trace of harness/src/bin/h_dddmp.rs and judges it with the
   extracted model coq/IO/Dddmp.v:
   - valid stream: exporter Ok => header + import Ok, same manager => equal
     handles, fresh manager => equal tables, header metadata = the model's
     sanitised names, strict mode error <=> the model says so, the model's
     reading of the exported bytes is isomorphic to the dump of the diagram;
   - malformed stream: no panic / hang; importer Ok => the model's reading of
     the same bytes has the same tables.
   kind=prop: the property's predicate fails on what the implementation did;
   kind=corr: model and implementation differ on something else. *)
open Conv

exception Bad of string * string (* kind, message *)

let prop fmt = Printf.ksprintf (fun s -> raise (Bad ("prop", s))) fmt
let corr fmt = Printf.ksprintf (fun s -> raise (Bad ("corr", s))) fmt

(* ---- bytes ------------------------------------------------------------ *)

let byte_tab : Model.n array = Array.init 256 n_of_int
let mbytes_of_string (s : string) : Model.n list = List.init (String.length s) (fun i -> byte_tab.(Char.code s.[i]))
let string_of_mbytes (l : Model.n list) : string =
  let b = Buffer.create 64 in
  List.iter (fun x -> Buffer.add_char b (Char.chr (int_of_n x land 255))) l;
  Buffer.contents b

let unhex (s : string) : string =
  let n = String.length s / 2 in
  String.init n (fun i -> Char.chr (int_of_string ("0x" ^ String.sub s (2 * i) 2)))

(* name token: "-" absent, "e" empty, else hex *)
let tok_name (t : string) : string option = match t with "-" -> None | "e" -> Some "" | x -> Some (unhex x)

let split_on c s = if s = "-" || s = "" then [] else String.split_on_char c s
let ints s = List.map int_of_string (split_on ',' s)

(* key=value tokens of a result line *)
let kv (toks : string list) (key : string) : string option =
  let pre = key ^ "=" in
  let pl = String.length pre in
  List.find_map
    (fun t -> if String.length t >= pl && String.sub t 0 pl = pre then Some (String.sub t pl (String.length t - pl)) else None)
    toks

let kv_exn toks key = match kv toks key with Some v -> v | None -> corr "missing field %s in trace" key
let starts_with s p = String.length s >= String.length p && String.sub s 0 (String.length p) = p

(* ---- kinds ------------------------------------------------------------ *)

let model_kind = function
  | "bdd" -> Some Model.KBDD
  | "bcdd" -> Some Model.KBCDD
  | "zbdd" -> Some Model.KZBDD
  | "mtbdd" -> Some Model.KMTBDD
  | _ -> None

let boolean dd = dd <> "mtbdd" && dd <> "tdd"

let tval_str (dd : string) (v : Model.tval) : string =
  match v with
  | Model.TNum z -> string_of_mz z
  | Model.TNaN -> "NaN"
  | Model.TPlusInf -> "+Inf"
  | Model.TMinusInf -> "-Inf"

(* terminal description in the harness dump (AsciiDisplay) *)
let tval_desc (dd : string) (v : Model.tval) : string =
  match (dd, v) with
  | "zbdd", Model.TNum z -> if Z.equal (z_of_mz z) Z.zero then "E" else "B"
  | "bdd", Model.TNum z -> if Z.equal (z_of_mz z) Z.zero then "F" else "T"
  | "bcdd", Model.TNum _ -> "T"
  | _ -> tval_str dd v

(* Boolean tables: hex nibbles, bit j of nibble k = index 4k+j *)
let bits_to_hex (bits : bool list) : string =
  let a = Array.of_list bits in
  let n = Array.length a in
  let b = Buffer.create (n / 4 + 1) in
  let i = ref 0 in
  while !i < n do
    let v = ref 0 in
    for j = 0 to 3 do
      if !i + j < n && a.(!i + j) then v := !v lor (1 lsl j)
    done;
    Buffer.add_char b "0123456789abcdef".[!v];
    i := !i + 4
  done;
  Buffer.contents b

let hex_to_bits (s : string) (len : int) : bool array =
  let a = Array.make len false in
  String.iteri
    (fun k c ->
      let v = int_of_string ("0x" ^ String.make 1 c) in
      for j = 0 to 3 do
        if (4 * k) + j < len then a.((4 * k) + j) <- v land (1 lsl j) <> 0
      done)
    s;
  a

let table_values (dd : string) (s : string) (len : int) : string array =
  if boolean dd then Array.map (fun b -> if b then "1" else "0") (hex_to_bits s len)
  else Array.of_list (String.split_on_char ',' s)

(* ---- the header: the extracted loader model (coq/IO/DddmpFile.v load_header) ---- *)

let herr_name (e : Model.herr) : string =
  match e with
  | Model.HEof -> "HEof" | Model.HVersion -> "HVersion" | Model.HMode -> "HMode" | Model.HVarinfo -> "HVarinfo"
  | Model.HKey -> "HKey" | Model.HInt -> "HInt" | Model.HIntLarge -> "HIntLarge" | Model.HNsupp -> "HNsupp"
  | Model.HIdsLen -> "HIdsLen" | Model.HPermLen -> "HPermLen" | Model.HAuxLen -> "HAuxLen" | Model.HIdsOrder -> "HIdsOrder"
  | Model.HIdsRange -> "HIdsRange" | Model.HPermRange -> "HPermRange" | Model.HPermDup -> "HPermDup"
  | Model.HOrderedLen -> "HOrderedLen" | Model.HSuppLen -> "HSuppLen" | Model.HVarnamesLen -> "HVarnamesLen"
  | Model.HNameMismatch -> "HNameMismatch" | Model.HSuppMismatch -> "HSuppMismatch" | Model.HRootsLen -> "HRootsLen"
  | Model.HRootZero -> "HRootZero" | Model.HRootRange -> "HRootRange" | Model.HRootnamesLen -> "HRootnamesLen"
  | Model.HInternal -> "HInternal"

type mhdr = HdrOk of Model.header * int (* header, offset of the node section *) | HdrErr of string | HdrSkip

(* the model loader on the whole file *)
let model_header (file : string) : mhdr =
  try
    match Model.load_header (mbytes_of_string file) with
    | Model.HOk (h, rest) -> HdrOk (h, String.length file - List.length rest)
    | Model.HErr Model.HInternal -> raise (Bad ("corr", "the model loader reached a state proved unreachable (HInternal)"))
    | Model.HErr e -> HdrErr (herr_name e)
  with Stack_overflow | Out_of_memory -> HdrSkip

(* ---- dump of the real diagram ---------------------------------------------- *)

type dnode = DT of string | DI of int * int list (* level, signed children *)
type dump = { dnodes : (int * dnode) list; droots : int list }

let parse_dump (toks : string list) : dump =
  let nodes = split_on ',' (kv_exn toks "nodes") in
  let dnodes =
    List.map
      (fun s ->
        match String.split_on_char ':' s with
        | id :: rest -> (
          let id = int_of_string id in
          match rest with
          | [ d ] when starts_with d "T" -> (id, DT (String.sub d 1 (String.length d - 1)))
          | l :: cs when starts_with l "L" ->
            (id, DI (int_of_string (String.sub l 1 (String.length l - 1)), List.map int_of_string cs))
          | _ -> corr "bad dump node %s" s)
        | _ -> corr "bad dump node %s" s)
      nodes
  in
  { dnodes; droots = ints (kv_exn toks "roots") }

(* an edge of a model store, kind independent: terminal description or store index, tag *)
type gref = GTerm of string | GNode of int

(* isomorphism between a model store/roots (nodes = level and children, any arity) and the dump
   (the former hand-written comparison; since GLUE it only words the message when the extracted checker rejects) *)
let check_iso_hand (store : (int * (gref * bool) list) list) (roots : (gref * bool) list) (d : dump) : unit =
  let term_id = Hashtbl.create 8 and inner_id = Hashtbl.create 64 in
  List.iter
    (fun (id, nd) -> match nd with DT s -> Hashtbl.replace term_id s id | DI (l, cs) -> Hashtbl.replace inner_id (l, cs) id)
    d.dnodes;
  let ninner = Hashtbl.length inner_id in
  let smap = Hashtbl.create 64 in
  let map_edge ((r, tag) : gref * bool) : int =
    let id =
      match r with
      | GTerm desc -> ( try Hashtbl.find term_id desc with Not_found -> corr "model terminal %s not in the dump" desc)
      | GNode i -> ( try Hashtbl.find smap i with Not_found -> corr "model edge to unmapped store node")
    in
    if tag then -id else id
  in
  List.iteri
    (fun i ((level, children) : int * (gref * bool) list) ->
      let key = (level, List.map map_edge children) in
      match Hashtbl.find_opt inner_id key with
      | Some id -> Hashtbl.replace smap i id
      | None ->
        corr "model node %d (level %d, children %s) has no counterpart in the dump of the real diagram" i (fst key)
          (String.concat "," (List.map string_of_int (snd key))))
    store;
  let used = Hashtbl.create 64 in
  Hashtbl.iter (fun _ id -> Hashtbl.replace used id ()) smap;
  if Hashtbl.length used <> List.length store then corr "model store maps non-injectively into the dump";
  if List.length store <> ninner then
    corr "model read %d inner nodes, the real diagram has %d" (List.length store) ninner;
  let mroots = List.map map_edge roots in
  if mroots <> d.droots then
    corr "model roots [%s] <> dump roots [%s]"
      (String.concat "," (List.map string_of_int mroots))
      (String.concat "," (List.map string_of_int d.droots))

(* GLUE: both diagrams are lifted into node tables of coq/DD/Table.v (store index i -> id i+1; dump id -> id+1; a
   terminal = its description, interned into one code table for both sides; the sign of a dump child = the tag) and
   the EXTRACTED, PROVED checker [Model.iso_core] of coq/DD/IsoCheck.v decides (onto, no fixed ids, the roots in order:
   C20_iso_check_sound / _complete).  Statistic [iso_disagree]: the checker rejects and the hand-written comparison
   finds nothing (GLUE_CROSS=1: or accepts where the hand-written comparison fails). *)
let glue_cross = Sys.getenv_opt "GLUE_CROSS" <> None
let check_iso_g (store : (int * (gref * bool) list) list) (roots : (gref * bool) list) (d : dump) : unit =
  let codes : (string, int) Hashtbl.t = Hashtbl.create 8 in
  let code (desc : string) : Model.n =
    n_of_int (match Hashtbl.find_opt codes desc with
              | Some c -> c
              | None -> let c = Hashtbl.length codes in Hashtbl.add codes desc c; c) in
  let dterm : (int, string) Hashtbl.t = Hashtbl.create 8 in
  List.iter (fun (id, nd) -> match nd with DT s -> Hashtbl.replace dterm id s | DI _ -> ()) d.dnodes;
  let pos (i : int) = pos_of_z (Z.of_int (i + 1)) in
  let medge ((r, tag) : gref * bool) : Model.edge =
    { Model.eref = (match r with GTerm desc -> Model.RT (code desc) | GNode i -> Model.RN (pos i)); Model.etag = tag } in
  let dedge (c : int) : Model.edge =
    let id = abs c in
    { Model.eref = (match Hashtbl.find_opt dterm id with Some s -> Model.RT (code s) | None -> Model.RN (pos id));
      Model.etag = c < 0 } in
  let maxl = List.fold_left (fun m (l, _) -> max m l) 0 store in
  let maxl = List.fold_left (fun m (_, nd) -> match nd with DI (l, _) -> max m l | DT _ -> m) maxl d.dnodes in
  let lv = List.init (maxl + 1) nat_of_int in
  let mk nodes =
    { Model.s_kind = Model.KBdd; Model.s_nodes = nodes; Model.s_terms = []; Model.s_v2l = lv; Model.s_l2v = lv;
      Model.s_handles = [] } in
  let node l ch = { Model.nlevel = nat_of_int l; Model.nchildren = ch; Model.nstored = nat_of_int l; Model.nrc = Model.N0 } in
  let _, mn =
    List.fold_left
      (fun (i, m) (l, ch) -> (i + 1, Model.PositiveMap.add (pos i) (node l (List.map medge ch)) m))
      (0, Model.PositiveMap.empty) store in
  let dn =
    List.fold_left
      (fun m (id, nd) -> match nd with DI (l, cs) -> Model.PositiveMap.add (pos id) (node l (List.map dedge cs)) m | DT _ -> m)
      Model.PositiveMap.empty d.dnodes in
  stat "iso_extracted_checks" 1;
  stat "iso_disagree" 0;
  let accepted =
    List.length roots = List.length d.droots
    && Model.iso_core false true (fun _ -> false) (mk mn) (mk dn) (List.map2 (fun a b -> (medge a, dedge b)) roots d.droots) <> None in
  if accepted then begin
    if glue_cross then (try check_iso_hand store roots d with Bad (k, m) -> stat "iso_disagree" 1; raise (Bad (k, m)))
  end else begin
    check_iso_hand store roots d;      (* raises with the message *)
    stat "iso_disagree" 1;
    corr "the extracted checker IsoCheck.iso_core rejects: the model's reading is not isomorphic to the dump of the real diagram (the hand-written comparison finds no difference)"
  end

let check_iso (dd : string) (store : Model.cnode list) (roots : Model.cedge list) (d : dump) : unit =
  let g (e : Model.cedge) =
    ((match e.Model.ce_ref with Model.RTerm v -> GTerm (tval_desc dd v) | Model.RNode i -> GNode (int_of_n i)), e.Model.ce_tag)
  in
  check_iso_g (List.map (fun (n : Model.cnode) -> (int_of_n n.Model.cn_level, [ g n.Model.cn_t; g n.Model.cn_e ])) store)
    (List.map g roots) d

let err_name (e : Model.err) : string =
  match e with
  | Model.EEof -> "EEof" | Model.EEscape -> "EEscape" | Model.ETooLarge -> "ETooLarge" | Model.EIdZero -> "EIdZero"
  | Model.EIdLarge -> "EIdLarge" | Model.EVarRange -> "EVarRange" | Model.ELevel -> "ELevel" | Model.ENoT -> "ENoT"
  | Model.EOom -> "EOom" | Model.EEnd -> "EEnd" | Model.ESyntax -> "ESyntax" | Model.ENodeId -> "ENodeId"
  | Model.ETerminal -> "ETerminal" | Model.EArity -> "EArity" | Model.ERoot -> "ERoot" | Model.EInternal -> "EInternal"

(* ---- TDD (coq/IO/DddmpTdd.v) ------------------------------------------------------ *)

let tterm_str = function Model.TFalse -> "0" | Model.TUnknown -> "u" | Model.TTrue -> "1"

let tref_g (r : Model.tref) : gref * bool =
  match r with
  | Model.TRTerm v -> (GTerm (string_of_mbytes (Model.tdd_desc v)), false)
  | Model.TRNode i -> (GNode (int_of_n i), false)

let check_iso_tdd (store : Model.tnode list) (roots : Model.tref list) (d : dump) : unit =
  check_iso_g
    (List.map
       (fun (n : Model.tnode) -> (int_of_n n.Model.tn_level, [ tref_g n.Model.tn_t; tref_g n.Model.tn_u; tref_g n.Model.tn_e ]))
       store)
    (List.map tref_g roots) d

type tdres = TdOk of Model.header * Model.tst * Model.tref list | TdErr of string | TdSkip

(* the TDD readers of the model on the whole file: [strict] = the arity check of the code *)
let model_tdd (strict : bool) (file : string) (slm : int list) : tdres =
  try
    match Model.tdd_import_whole_guarded strict (List.map n_of_int slm) (mbytes_of_string file) with
    | Model.TOk ((h, st), roots) -> TdOk (h, st, roots)
    | Model.THdr Model.HInternal -> raise (Bad ("corr", "the model loader reached a state proved unreachable (HInternal)"))
    | Model.THdr e -> TdErr ("header " ^ herr_name e)
    | Model.TPre -> TdErr "TPre"
    | Model.TBinary -> TdErr "TBinary"
    | Model.TBody Model.EInternal -> raise (Bad ("corr", "the model TDD reader reached a state proved unreachable (EInternal)"))
    | Model.TBody e -> TdErr (err_name e)
  with Stack_overflow | Out_of_memory -> TdSkip

(* value of a model TDD root under an assignment of the variables (value of variable v = a v) *)
let tdd_value (st : Model.tst) (v2l : int array) (a : int -> Model.tterm) (root : Model.tref) : string =
  let env (l : Model.n) : Model.tterm =
    let l = int_of_n l in
    let r = ref Model.TFalse in
    Array.iteri (fun v lv -> if lv = l then r := a v) v2l;
    !r
  in
  tterm_str (Model.tdd_eval_root st.Model.ts_store env root)

(* ---- model import + tables ----------------------------------------------- *)

(* the model importer (coq/IO/DddmpFile.v import_whole_guarded: header loader + node section +
   trailer + roots) on the whole [file]; [slm] = level of every support position, [nlevels] *)
type mres =
  | MOk of Model.header * Model.ist * Model.cedge list
  | MHdr of string
  | MPre
  | MBody of string
  | MSkip

let model_whole (k : Model.kind) (file : string) (slm : int list) (nlevels : int) : mres =
  try
    match Model.import_whole_guarded k (List.map n_of_int slm) (n_of_int nlevels) (mbytes_of_string file) with
    | Model.WOk ((h, st), roots) -> MOk (h, st, roots)
    | Model.WHdr e -> MHdr (herr_name e)
    | Model.WPre -> MPre
    | Model.WBody Model.EInternal -> raise (Bad ("corr", "the model importer reached a state the real importer cannot be in (EInternal)"))
    | Model.WBody e -> MBody (err_name e)
  with Stack_overflow | Out_of_memory -> MSkip

(* table of a model root over [vars] (bit j of the index = vars.(j)); level of variable v = v2l.(v);
   all other variables false *)
let model_table (dd : string) (k : Model.kind) (st : Model.ist) (nlevels : int) (v2l : int array) (vars : int array)
    (root : Model.cedge) : string =
  let nv = Array.length vars in
  let vals =
    List.init (1 lsl nv) (fun a ->
        let env (l : Model.n) : bool =
          let l = int_of_n l in
          let r = ref false in
          Array.iteri (fun j v -> if v2l.(v) = l && (a lsr j) land 1 = 1 then r := true) vars;
          !r
        in
        tval_str dd (Model.eval_root k st.Model.st_store (n_of_int nlevels) env root))
  in
  if boolean dd then bits_to_hex (List.map (fun s -> s = "1") vals) else String.concat "," vals

(* ---- case state -------------------------------------------------------------- *)

type xopts = {
  ver3 : bool; ascii : bool; strict : bool; ddname : string option; named_roots : bool; roots : (int * string) list;
  chain : string list; (* builder calls of the getter probe *)
}

let parse_xopts (toks : string list) : xopts =
  let roots =
    List.map
      (fun r ->
        match String.index_opt r ':' with
        | Some p ->
          ( int_of_string (String.sub r 0 p),
            match tok_name (String.sub r (p + 1) (String.length r - p - 1)) with Some n -> n | None -> "" )
        | None -> (int_of_string r, ""))
      (split_on ',' (kv_exn toks "roots"))
  in
  {
    ver3 = kv_exn toks "ver" = "3";
    ascii = kv_exn toks "mode" = "a";
    strict = kv_exn toks "strict" = "1";
    ddname = tok_name (kv_exn toks "dd");
    named_roots = kv_exn toks "rn" = "1";
    roots;
    chain = (match kv toks "chain" with Some c -> split_on ',' c | None -> []);
  }

(* ExportSettings (coq/IO/DddmpTdd.v): the builder calls of the harness *)
let setter_of_tok (c : string) : Model.setter =
  match c with
  | "a" -> Model.SAscii
  | "b" -> Model.SBinary
  | "v2" -> Model.SVersion false
  | "v3" -> Model.SVersion true
  | "s0" -> Model.SStrict false
  | "s1" -> Model.SStrict true
  | c when String.length c >= 1 && c.[0] = 'n' ->
    Model.SName (mbytes_of_string (match tok_name (String.sub c 1 (String.length c - 1)) with Some n -> n | None -> ""))
  | c -> failwith ("unknown builder call " ^ c)

(* what the harness prints for the getters of a settings value *)
let show_settings (st : Model.settings) : string =
  Printf.sprintf "ver=%d ascii=%d strict=%d ddn=%s"
    (if st.Model.get_version3 then 3 else 2)
    (if st.Model.is_ascii then 1 else 0)
    (if st.Model.is_strict then 1 else 0)
    (match string_of_mbytes st.Model.get_diagram_name with "" -> "e" | n -> String.concat "" (List.map (fun c -> Printf.sprintf "%02x" (Char.code c)) (List.init (String.length n) (String.get n))))

let arity_of dd = if dd = "tdd" then Model.tdd_arity else n_of_int 2

let apply_mutation (base : string) (toks : string list) : string =
  let n = String.length base in
  let pos i = min (int_of_string (List.nth toks i)) n in
  let byte i = Char.chr (int_of_string ("0x" ^ List.nth toks i)) in
  match List.nth toks 1 with
  | "raw" -> ( match List.nth_opt toks 2 with Some h -> unhex h | None -> "")
  | "t" -> String.sub base 0 (pos 2)
  | "r" ->
    let p = pos 2 in
    if p < n then String.mapi (fun i c -> if i = p then byte 3 else c) base else base
  | "i" ->
    let p = pos 2 in
    String.sub base 0 p ^ String.make 1 (byte 3) ^ String.sub base p (n - p)
  | "d" ->
    let p = pos 2 in
    if p < n then String.sub base 0 p ^ String.sub base (p + 1) (n - p - 1) else base
  | m -> failwith ("unknown mutation " ^ m)

let names_field (s : string) : string list option =
  if s = "-" then None else Some (List.map (fun t -> match tok_name t with Some n -> n | None -> "") (String.split_on_char ',' s))

let show_names = function
  | None -> "none"
  | Some l -> "[" ^ String.concat "; " (List.map String.escaped l) ^ "]"

(* the header the real loader returned (accessor values in the trace tokens [toks]) against the
   model's header; [fail] raises the verdict *)
let compare_header (fail : string -> unit) (h : Model.header) (off : int) (toks : string list) : unit =
  let il l = String.concat "," (List.map string_of_n l) in
  let chk what got want = if got <> want then fail (Printf.sprintf "header field %s: real loader [%s], model loader [%s]" what got want) in
  let nlist s = if s = "-" then "" else s in
  chk "offset of the node section" (kv_exn toks "off") (string_of_int off);
  chk "nnodes" (kv_exn toks "nnodes") (string_of_n h.Model.h_nnodes);
  chk "nvars" (kv_exn toks "nvars") (string_of_n h.Model.h_nvars);
  chk "nsupp" (kv_exn toks "nsupp") (string_of_int (List.length h.Model.h_ids));
  chk "ids" (nlist (kv_exn toks "ids")) (il h.Model.h_ids);
  chk "support_var_order" (nlist (kv_exn toks "order")) (il h.Model.h_order);
  chk "permids" (nlist (kv_exn toks "permids")) (il h.Model.h_permids);
  chk "auxids" (nlist (kv_exn toks "aux")) (il h.Model.h_auxids);
  chk "nroots" (kv_exn toks "nroots") (string_of_int (List.length h.Model.h_rootids));
  let got_dd = tok_name (kv_exn toks "dd") in
  let want_dd = match h.Model.h_dd with [] -> None | d -> Some (string_of_mbytes d) in
  if got_dd <> want_dd then
    fail (Printf.sprintf "diagram name: real loader %s, model loader %s" (show_names (Option.map (fun x -> [ x ]) got_dd))
            (show_names (Option.map (fun x -> [ x ]) want_dd)));
  let opt_names = function [] -> None | l -> Some (List.map string_of_mbytes l) in
  let got_vn = names_field (kv_exn toks "names") and want_vn = opt_names h.Model.h_varnames in
  if got_vn <> want_vn then fail (Printf.sprintf "variable names: real loader %s, model loader %s" (show_names got_vn) (show_names want_vn));
  let got_rn = names_field (kv_exn toks "rootnames") and want_rn = opt_names h.Model.h_rootnames in
  if got_rn <> want_rn then fail (Printf.sprintf "root names: real loader %s, model loader %s" (show_names got_rn) (show_names want_rn))

(* ---- the X op ---------------------------------------------------------------- *)

let check_export dd nv (names : string option array) (tables : string array list) (o : xopts) (res : string)
    (aux : (string * string list) list) : string =
  let find tag = List.assoc_opt tag aux in
  let need tag = match find tag with Some t -> t | None -> corr "missing %s line" tag in
  let file = match need ".file" with h :: _ -> unhex h | [] -> "" in
  let export_ok = starts_with res "export=ok" in
  (* 1. strict mode reports exactly the documented cases *)
  let name_bytes = Array.to_list (Array.map (fun n -> mbytes_of_string (match n with Some s -> s | None -> "")) names) in
  let exp_names, var_err = Model.export_var_names o.strict name_bytes in
  let dd_err =
    match o.ddname with
    | Some d when d <> "" -> o.strict && snd (Model.write_replacing_control (mbytes_of_string d))
    | _ -> false
  in
  let exp_rootnames, root_repl =
    if o.named_roots then Model.sanitize_root_names (List.map (fun (_, n) -> mbytes_of_string n) o.roots) else ([], false)
  in
  let root_err = o.strict && root_repl in
  let want_err = dd_err || var_err || root_err in
  if export_ok && want_err then
    prop "strict mode export returned Ok although a name needs replacing (dd=%b var=%b root=%b)" dd_err var_err root_err;
  if (not export_ok) && not want_err then prop "export failed although no documented strict-mode case applies: %s" res;
  (* 2. the written file is accepted *)
  let hdr = need ".hdr" in
  (match hdr with
  | "ok" :: _ -> ()
  | _ ->
    if export_ok then prop "exporter returned Ok but DumpHeader::load rejects the file: %s" (String.concat " " hdr)
    else corr "file of a failed strict-mode export is rejected by DumpHeader::load: %s" (String.concat " " hdr));
  let src = need ".src" in
  let v2l = Array.of_list (ints (kv_exn src "v2l")) in
  let dump = parse_dump (need ".dump") in
  (* 3. header metadata *)
  let levels_used =
    List.sort_uniq compare (List.filter_map (fun (_, n) -> match n with DI (l, _) -> Some l | DT _ -> None) dump.dnodes)
  in
  let supp = List.filter (fun v -> List.mem v2l.(v) levels_used) (List.init nv (fun v -> v)) in
  let exp_ids = supp in
  let exp_perm = List.map (fun v -> v2l.(v)) supp in
  let exp_order = List.sort (fun a b -> compare v2l.(a) v2l.(b)) supp in
  let chk what got want = if got <> want then prop "header %s is [%s], expected [%s]" what got want in
  let il l = String.concat "," (List.map string_of_int l) in
  chk "nvars" (kv_exn hdr "nvars") (string_of_int nv);
  chk "nnodes" (kv_exn hdr "nnodes") (string_of_int (List.length dump.dnodes));
  chk "nsupp" (kv_exn hdr "nsupp") (string_of_int (List.length supp));
  chk "support_vars" (il (ints (kv_exn hdr "ids"))) (il exp_ids);
  chk "support_var_to_level" (il (ints (kv_exn hdr "permids"))) (il exp_perm);
  chk "support_var_order" (il (ints (kv_exn hdr "order"))) (il exp_order);
  chk "num_roots" (kv_exn hdr "nroots") (string_of_int (List.length o.roots));
  let exp_dd =
    match o.ddname with
    | None | Some "" -> None
    | Some d ->
      let s = string_of_mbytes (Model.trim (fst (Model.write_replacing_control (mbytes_of_string d)))) in
      if s = "" then None else Some s
  in
  let got_dd = tok_name (kv_exn hdr "dd") in
  if got_dd <> exp_dd then
    prop "diagram name is %s, expected %s" (show_names (Option.map (fun x -> [ x ]) got_dd)) (show_names (Option.map (fun x -> [ x ]) exp_dd));
  let exp_vn = Option.map (List.map string_of_mbytes) exp_names in
  let exp_vn = if nv = 0 then None else exp_vn in
  let got_vn = names_field (kv_exn hdr "names") in
  let identity = Array.for_all (fun x -> x) (Array.mapi (fun v l -> v = l) v2l) in
  (match (got_vn, exp_vn) with
  | Some g, Some w when (not identity) && not o.ver3 ->
    (* format 2.0 has no .varnames: the names of unused variables are recovered from
       .orderedvarnames in level order only *)
    List.iter (fun v -> if List.nth g v <> List.nth w v then prop "name of support variable %d is %S, expected %S" v (List.nth g v) (List.nth w v)) supp;
    if List.sort compare g <> List.sort compare w then prop "variable names %s, expected a permutation of %s" (show_names got_vn) (show_names exp_vn)
  | _ -> if got_vn <> exp_vn then prop "variable names are %s, expected %s" (show_names got_vn) (show_names exp_vn));
  (* distinct (non-empty) variable names stay distinct in the file *)
  (match got_vn with
  | Some g ->
    let sorted = List.sort compare g in
    let rec dup = function a :: (b :: _ as r) -> if a = b then Some a else dup r | _ -> None in
    (match dup sorted with Some d -> prop "variable name %S occurs twice in the exported file" d | None -> ())
  | None -> ());
  let exp_rn = if o.named_roots && o.roots <> [] then Some (List.map string_of_mbytes exp_rootnames) else None in
  let got_rn = names_field (kv_exn hdr "rootnames") in
  if got_rn <> exp_rn then prop "root names are %s, expected %s" (show_names got_rn) (show_names exp_rn);
  (* original tables *)
  let orig = split_on '|' (kv_exn (need ".orig") "tt") in
  let want_tt = List.map (fun (i, _) -> List.nth tables i) o.roots in
  List.iteri
    (fun j t ->
      let w = List.nth want_tt j in
      if table_values dd t (1 lsl nv) <> w then corr "root %d does not have the table it was built from" j)
    orig;
  let nroots = List.length o.roots in
  (* 4./5. imports *)
  if dd <> "tdd" then begin
    (match need ".same" with
    | toks when List.mem "ok" toks ->
      let eq = ints (kv_exn toks "eq") in
      if List.length eq <> nroots then prop "import returned %d handles for %d roots" (List.length eq) nroots;
      List.iteri (fun j b -> if b <> 1 then prop "same manager: imported handle %d differs from the original" j) eq
    | toks -> prop "import into the same manager failed: %s" (String.concat " " toks));
    (match need ".fresh" with
    | toks when List.mem "ok" toks ->
      let tt = split_on '|' (kv_exn toks "tt") in
      if List.length tt <> nroots then prop "fresh manager: %d handles for %d roots" (List.length tt) nroots;
      List.iteri (fun j t -> if t <> List.nth orig j then prop "fresh manager: table of root %d differs (%s vs %s)" j t (List.nth orig j)) tt
    | toks -> prop "import into a fresh manager failed: %s" (String.concat " " toks));
    match find ".embed" with
    | None -> ()
    | Some toks when List.mem "ok" toks ->
      let map = Array.of_list (ints (kv_exn toks "map")) in
      let nv2 = (2 * nv) + 1 in
      let tt = split_on '|' (kv_exn toks "tt") in
      List.iteri
        (fun j t ->
          let big = table_values dd t (1 lsl nv2) in
          let small = table_values dd (List.nth orig j) (1 lsl nv) in
          for a = 0 to (1 lsl nv2) - 1 do
            let b = ref 0 in
            for v = 0 to nv - 1 do
              if (a lsr map.(v)) land 1 = 1 then b := !b lor (1 lsl v)
            done;
            if big.(a) <> small.(!b) then prop "embedding: root %d differs at assignment %d" j a
          done)
        tt
    | Some toks -> prop "import with a variable mapping failed: %s" (String.concat " " toks)
  end;
  (* 5b. ExportSettings: getters of the settings in use and of the probe chain, binary_supported *)
  let settings =
    Model.apply_setters
      [ Model.SVersion o.ver3; Model.SStrict o.strict;
        Model.SName (mbytes_of_string (match o.ddname with Some d -> d | None -> ""));
        (if o.ascii then Model.SAscii else Model.SBinary) ]
  in
  let nterm = match kv src "nterm" with Some t -> n_of_int (int_of_string t) | None -> corr "missing nterm" in
  (match find ".set" with
  | None -> corr "missing .set line"
  | Some toks ->
    let want =
      Printf.sprintf "bs=%d %s | %s"
        (if Model.binary_supported (arity_of dd) nterm then 1 else 0)
        (show_settings settings)
        (show_settings (Model.apply_setters (List.map setter_of_tok o.chain)))
    in
    let got = String.concat " " toks in
    if got <> want then prop "ExportSettings getters / binary_supported report [%s], expected [%s]" got want;
    stat "settings_probes" 1);
  (* 6. the header: the model loader reads what the real loader reads, and the exporter's
     header model prints the real header byte for byte *)
  let off = int_of_string (kv_exn hdr "off") in
  let mh =
    match model_header file with
    | HdrErr e -> corr "the model loader rejects the exporter's header: %s" e
    | HdrSkip -> corr "the model loader ran out of stack on the exporter's header"
    | HdrOk (h, moff) ->
      compare_header (fun m -> corr "%s" m) h moff hdr;
      h
  in
  (* the mode the exporter chose: ASCII iff the settings force it, binary mode is not supported
     (export.rs binary_supported: two children and a single terminal in the manager) or a terminal
     other than "T" is exported *)
  let want_ascii =
    Model.export_ascii_mode settings (arity_of dd) nterm
      (List.filter_map (fun (_, n) -> match n with DT d -> Some (mbytes_of_string d) | DI _ -> None) dump.dnodes)
  in
  if mh.Model.h_ascii <> want_ascii then
    prop "the file is written in %s mode, expected %s mode (settings ascii=%b, binary_supported=%b)"
      (if mh.Model.h_ascii then "ASCII" else "binary") (if want_ascii then "ASCII" else "binary") o.ascii
      (Model.binary_supported (arity_of dd) nterm);
  (let l2v = Array.make nv 0 in
   Array.iteri (fun v l -> if l < nv then l2v.(l) <- v) v2l;
   let xh =
     {
       Model.x_ver3 = o.ver3;
       (* export.rs: ascii = settings.ascii || !binary_supported(manager) (two children and a single
          terminal in the manager) || some exported terminal is not printed as "T" *)
       x_ascii = want_ascii;
       x_dd = mbytes_of_string (match o.ddname with Some d -> d | None -> "");
       x_nnodes = n_of_int (List.length dump.dnodes);
       x_vars = List.init nv (fun v -> (n_of_int v2l.(v), List.mem v supp));
       x_l2v = List.map n_of_int (Array.to_list l2v);
       x_names = exp_names;
       (* the ids the exporter gives to the nodes depend on hash map iteration orders: the
          root references are taken from the file (and checked against the dump below) *)
       x_rootids = mh.Model.h_rootids;
       x_rootnames = (if o.named_roots then Some exp_rootnames else None);
     }
   in
   let want = string_of_mbytes (Model.print_header xh) in
   let got = String.sub file 0 (min off (String.length file)) in
   if want <> got then corr "exporter header model prints %S, the real header is %S" want got;
   let hx = Model.header_of xh in
   if hx <> mh then corr "header_of (the expected result of loading the printed header) differs from what the model loader returns";
   stat "headers_reproduced" 1);
  (* 7. the model's reading of the bytes = the real diagram *)
  (match model_kind dd with
  | None when dd = "tdd" ->
    (* the decoder of the model reads the file; the reader with the arity check of the code
       rejects it (C15_tdd_code_rejects_whole) unless it has no node *)
    let order = ints (kv_exn hdr "order") in
    let slm = List.map (fun v -> v2l.(v)) order in
    let nnodes = List.length dump.dnodes in
    (match model_tdd true file slm with
    | TdErr "EArity" when nnodes > 0 -> stat "tdd_code_reader_rejects" 1
    | TdOk _ when nnodes = 0 -> stat "tdd_code_reader_accepts_empty" 1
    | TdSkip -> ()
    | TdErr e -> corr "the reader with the arity check of the code: %s on an exported file with %d nodes" e nnodes
    | TdOk _ -> corr "the reader with the arity check of the code accepts an exported TDD file with %d nodes" nnodes);
    (match model_tdd false file slm with
    | TdErr e ->
      (* no importer exists for this kind: the verified decoder of the written format stands in;
         a file it cannot read does not describe the exported diagram *)
      if export_ok then prop "the exporter returned Ok but the file is not a TDD dump (decoder of the model: %s)" e
      else corr "model TDD decoder rejects the file of a failed strict-mode export: %s" e
    | TdSkip -> corr "model TDD decoder ran out of stack on the exporter's file"
    | TdOk (mhdr, st, roots) ->
      if mhdr <> mh then corr "TDD decoder returns another header than the loader";
      check_iso_tdd st.Model.ts_store roots dump;
      (* two-valued tables *)
      List.iteri
        (fun j r ->
          let t =
            String.concat ","
              (List.init (1 lsl nv) (fun a -> tdd_value st v2l (fun v -> if (a lsr v) land 1 = 1 then Model.TTrue else Model.TFalse) r))
          in
          if t <> List.nth orig j then prop "decoded root %d has table %s, the exported function %s" j t (List.nth orig j))
        roots;
      (* three-valued tables *)
      (match find ".orig3" with
      | None -> ()
      | Some toks ->
        let t3 = split_on '|' (kv_exn toks "tt") in
        if List.length t3 <> List.length roots then corr ".orig3 has %d tables for %d roots" (List.length t3) (List.length roots);
        let n3 = int_of_float (3. ** float_of_int nv) in
        List.iteri
          (fun j r ->
            let b = Buffer.create n3 in
            for a = 0 to n3 - 1 do
              let digit v =
                let rec p x k = if k = 0 then x else p (x / 3) (k - 1) in
                p a v mod 3
              in
              Buffer.add_string b
                (tdd_value st v2l (fun v -> match digit v with 0 -> Model.TFalse | 1 -> Model.TUnknown | _ -> Model.TTrue) r)
            done;
            if Buffer.contents b <> List.nth t3 j then
              prop "decoded root %d has the three-valued table %s, the exported function %s" j (Buffer.contents b) (List.nth t3 j))
          roots;
        stat "tdd_three_valued_tables" (List.length roots));
      stat "model_nodes_read" (List.length st.Model.ts_store);
      (* the exporter model reproduces the node section byte for byte *)
      let body_len = String.length file - off - 5 in
      if export_ok && body_len >= 0 && String.sub file (off + body_len) 5 = ".end\n" then begin
        let body = String.sub file off body_len in
        let nterms = List.length (List.filter (fun (_, n) -> match n with DT _ -> true | DI _ -> false) dump.dnodes) in
        let terms =
          List.filteri (fun i _ -> i < nterms) st.Model.ts_nodes
          |> List.map (function Model.TRTerm v -> v | Model.TRNode _ -> corr "an inner node among the first %d node IDs" nterms)
        in
        let pos (l : Model.n) : Model.n =
          let l = int_of_n l in
          let rec f i = function [] -> corr "level not in support" | x :: r -> if x = l then i else f (i + 1) r in
          n_of_int (f 0 slm)
        in
        let txt = string_of_mbytes (Model.tdd_export_nodes (Model.tdd_anodes terms pos st.Model.ts_store)) in
        if txt <> body then corr "TDD exporter model prints %S, real node section is %S" txt body;
        stat "tdd_sections_reproduced" 1
      end)
  | None -> ()
  | Some k ->
    let order = ints (kv_exn hdr "order") in
    let slm = List.map (fun v -> v2l.(v)) order in
    (match model_whole k file slm nv with
    | MHdr e -> corr "model importer rejects the exporter's file: header %s" e
    | MBody e -> corr "model importer rejects the exporter's file: %s" e
    | MPre -> corr "model importer: number of support variables differs from the header's"
    | MSkip -> corr "model importer ran out of stack on the exporter's file"
    | MOk (mhdr, st, roots) ->
      check_iso dd st.Model.st_store roots dump;
      let vars = Array.init nv (fun v -> v) in
      List.iteri
        (fun j r ->
          let t = model_table dd k st nv v2l vars r in
          if t <> List.nth orig j then corr "model reading of root %d has table %s, real %s" j t (List.nth orig j))
        roots;
      stat "model_nodes_read" (List.length st.Model.st_store);
      (* the exporter models reproduce the node section byte for byte *)
      let body_len = String.length file - off - 5 in
      if export_ok && body_len >= 0 && String.sub file (off + body_len) 5 = ".end\n" then begin
        let body = String.sub file off body_len in
        if mhdr.Model.h_ascii then begin
          (* re-print the parsed lines with the model's line printer *)
          let lines = List.filter (fun l -> l <> "") (String.split_on_char '\n' body) in
          let anodes =
            List.map
              (fun l ->
                match List.filter (fun t -> t <> "") (String.split_on_char ' ' l) with
                | [ _; tok; c1; c2 ] when c1 = "0" || c2 = "0" -> Model.ATerm (mbytes_of_string tok)
                | [ _; tok; c1; c2 ] -> Model.AInner (n_of_string tok, mz_of_string c1, mz_of_string c2)
                | _ -> corr "unexpected ASCII node line %S" l)
              lines
          in
          let txt = string_of_mbytes (Model.export_ascii_nodes anodes) in
          if txt <> body then corr "ASCII exporter model prints %S, real node section is %S" txt body;
          stat "ascii_sections_reprinted" 1
        end
        else if List.length dump.dnodes > 0 then begin
          (* rebuild the exporter's node list from the model importer's unique table *)
          let pos_of_level l =
            let rec f i = function [] -> corr "level not in support" | x :: r -> if x = l then i else f (i + 1) r in
            f 0 slm
          in
          let id_of (e : Model.cedge) = match e.Model.ce_ref with Model.RTerm _ -> 1 | Model.RNode i -> int_of_n i + 2 in
          let xs =
            Model.XTerm
            :: List.map
                 (fun (n : Model.cnode) ->
                   Model.XInner
                     ( n_of_int (pos_of_level (int_of_n n.Model.cn_level)),
                       n_of_int (id_of n.Model.cn_t),
                       n_of_int (id_of n.Model.cn_e),
                       n.Model.cn_e.Model.ce_tag ))
                 st.Model.st_store
          in
          let bytes = string_of_mbytes (Model.export_nodes xs) in
          if bytes <> body then corr "binary exporter model writes a different node section than the real exporter";
          stat "binary_sections_reproduced" 1
        end
      end));
  stat (if o.ascii then "export_ascii" else "export_binary_requested") 1;
  stat ("export_" ^ dd) 1;
  file

(* ---- the M / L ops ------------------------------------------------------------ *)

let check_mutation dd (base : string) (toks : string list) (res : string) : unit =
  let rt = split_ws res in
  let is_l = List.hd toks = "L" in
  let mtoks = if is_l then List.tl toks else toks in
  if starts_with res "PANIC" then prop "importer panicked: %s" res;
  if starts_with res "CRASH" then prop "importer crashed the process: %s" res;
  if starts_with res "skip=" then stat "mal_skipped" 1
  else begin
    let file = apply_mutation base mtoks in
    (* the header: DumpHeader::load Err <-> model loader Err; both Ok => same header *)
    let mh = model_header file in
    if starts_with res "hdr=err" then begin
      match mh with
      | HdrOk _ -> corr "DumpHeader::load rejects the header (%s), the model loader accepts it" res
      | HdrErr e -> stat "mal_rejected_header" 1; stat ("mal_hdr_" ^ e) 1
      | HdrSkip -> stat "mal_model_skipped" 1
    end
    else begin
      (match mh with
      | HdrErr e -> corr "DumpHeader::load accepts the header, the model loader rejects it (%s)" e
      | HdrSkip -> stat "mal_model_skipped" 1
      | HdrOk (h, off) ->
        compare_header (fun m -> corr "%s" m) h off rt;
        stat "mal_headers_equal" 1);
      match kv rt "skip" with
      | Some _ when dd = "tdd" && kv rt "skip" = Some "no-importer" -> (
        (* no real importer: the readers of the model on the same bytes (totality, and the reader
           of the code is a restriction of the decoder) *)
        match mh with
        | HdrOk (h, _) -> (
          let slm = List.init (List.length h.Model.h_ids) (fun i -> i) in
          let a = model_tdd true file slm and b = model_tdd false file slm in
          (match (a, b) with
          | TdOk (h1, s1, r1), TdOk (h2, s2, r2) -> if (h1, s1, r1) <> (h2, s2, r2) then corr "the two TDD readers of the model accept with different results"
          | TdOk _, TdErr e -> corr "the TDD reader with the arity check accepts, the decoder rejects (%s)" e
          | _ -> ());
          match b with
          | TdOk _ -> stat "tdd_mal_decoder_accepts" 1
          | TdErr e -> stat "tdd_mal_decoder_rejects" 1; stat ("tdd_mal_" ^ e) 1
          | TdSkip -> stat "mal_model_skipped" 1)
        | _ -> ())
      | Some _ -> stat "mal_skipped" 1
      | None -> (
        let sv = ints (kv_exn rt "sv") in
        let imp = kv_exn rt "imp" in
        match model_kind dd with
        | None -> ()
        | Some k ->
          let mv = match kv rt "mv" with Some v -> int_of_string v | None -> max (int_of_string (kv_exn rt "nvars")) 1 in
          let m = model_whole k file sv mv in
          if starts_with imp "err" then begin
            stat "mal_rejected_nodes" 1;
            match m with
            | MOk _ when not (is_l && starts_with imp "err:OutOfMemory") -> corr "real importer rejects (%s), model accepts" imp
            | MHdr e -> corr "real loader accepts the header, model importer rejects it (%s)" e
            | MPre -> corr "model importer: number of support variables differs from the header's"
            | _ -> ()
          end
          else begin
            stat "mal_accepted" 1;
            match m with
            | MHdr e | MBody e -> corr "real importer accepts, model rejects (%s)" e
            | MPre -> corr "model importer: number of support variables differs from the header's"
            | MSkip -> stat "mal_model_skipped" 1
            | MOk (_, st, roots) ->
              let tt = kv_exn rt "tt" in
              if tt <> "skip" then begin
                let real = split_on '|' tt in
                if List.length real <> List.length roots then prop "importer returned %d handles, model %d" (List.length real) (List.length roots);
                let v2l = Array.init (max mv 1) (fun v -> v) in
                let vars = Array.of_list sv in
                List.iteri
                  (fun j r ->
                    let t = model_table dd k st mv v2l vars r in
                    if t <> List.nth real j then
                      prop "importer built a function with table %s for root %d, the model reads %s from the same bytes" (List.nth real j) j t)
                  roots
              end
          end)
    end
  end

(* ---- main loop ---------------------------------------------------------------- *)

let () =
  iter_cases stdin (fun c ->
      let dd = match param c "dd" with Some d -> d | None -> "bdd" in
      let nv = param_int c "nv" 3 in
      let names = Array.make nv None in
      let tables = ref [] in
      let base = ref "" in
      let bad = ref false in
      (* group lines: op line followed by its auxiliary lines *)
      let groups =
        List.fold_left
          (fun acc l -> if String.length l > 0 && l.[0] = '.' then (match acc with (o, a) :: r -> (o, l :: a) :: r | [] -> []) else (l, []) :: acc)
          [] c.lines
        |> List.rev_map (fun (o, a) -> (o, List.rev a))
      in
      List.iteri
        (fun i (l, auxl) ->
          if not !bad then
            try
              if l = "HANG" then prop "implementation did not terminate (watchdog)";
              if starts_with l "PANIC" then prop "implementation panicked: %s" l;
              if starts_with l "CRASH" then prop "implementation crashed the process: %s" l;
              let ops, res = split_arrow l in
              let toks = split_ws ops in
              stat ("op_" ^ List.hd toks) 1;
              match List.hd toks with
              | "V" ->
                if res <> "ok" then corr "generator produced a duplicate variable name (%s)" res;
                List.iteri (fun v t -> if v < nv then names.(v) <- (match tok_name t with Some "" -> None | x -> x)) (List.tl toks)
              | "F" ->
                let want = table_values dd (List.nth toks 1) (1 lsl nv) in
                let rt = split_ws res in
                if List.hd rt <> "ok" then corr "function could not be built: %s" res;
                let got = table_values dd (kv_exn rt "tt") (1 lsl nv) in
                if got <> want then corr "built function has table %s" (kv_exn rt "tt");
                tables := !tables @ [ want ]
              | "O" -> ()
              | "X" ->
                if starts_with res "PANIC" then prop "exporter panicked: %s" res;
                let o = parse_xopts toks in
                let aux = List.map (fun a -> match split_ws a with t :: r -> (t, r) | [] -> ("", [])) auxl in
                base := check_export dd nv names !tables o res aux
              | "M" | "L" -> check_mutation dd !base toks res
              | o -> failwith ("unknown op " ^ o)
            with
            | Bad (kind, msg) ->
              bad := true;
              verdict_bad c i kind msg
            | (Failure m | Invalid_argument m) ->
              bad := true;
              verdict_bad c i "corr" ("driver could not interpret the trace line: " ^ m ^ " :: " ^ String.sub l 0 (min 120 (String.length l))))
        groups;
      stat "cases" 1;
      stat ("cases_" ^ (match param c "k" with Some k -> k | None -> "?")) 1;
      if not !bad then verdict_ok c);
  dump_stats ()
