(* C16 driver: replays every call of the implementation's trace (h_names) on
   the extracted model of VarNameMap + manager wrappers (Mgr/Names.v),
   evaluates the property's predicate directly on what the implementation
   reported (kind=prop) and compares everything with the model (kind=corr).

   line:  <op> -> <res> # <nvars> <nlevels> <nnamed> # <names> # <lookups> # <levels> [# sem <tables>]  *)
open Conv

(* ---- names: hex <-> Model.string --------------------------------------- *)
let mstring_of_bytes (s : string) : Model.string =
  let bit c i = (Char.code c lsr i) land 1 = 1 in
  let r = ref Model.EmptyString in
  for i = String.length s - 1 downto 0 do
    let c = s.[i] in
    r := Model.String (Model.Ascii (bit c 0, bit c 1, bit c 2, bit c 3, bit c 4, bit c 5, bit c 6, bit c 7), !r)
  done;
  !r

let bytes_of_mstring (m : Model.string) : string =
  let b = Buffer.create 16 in
  let rec go = function
    | Model.EmptyString -> ()
    | Model.String (Model.Ascii (b0, b1, b2, b3, b4, b5, b6, b7), r) ->
      let v x i = if x then 1 lsl i else 0 in
      Buffer.add_char b (Char.chr (v b0 0 + v b1 1 + v b2 2 + v b3 3 + v b4 4 + v b5 5 + v b6 6 + v b7 7));
      go r
  in
  go m;
  Buffer.contents b

let unhex (h : string) : string =
  if h = "_" then ""
  else String.init (String.length h / 2) (fun i -> Char.chr (int_of_string ("0x" ^ String.sub h (2 * i) 2)))

let hex (s : string) : string =
  if s = "" then "_"
  else String.concat "" (List.init (String.length s) (fun i -> Printf.sprintf "%02x" (Char.code s.[i])))

let mname h = mstring_of_bytes (unhex h)
let hex_of_m m = hex (bytes_of_mstring m)
let split_on c s = String.split_on_char c s
let parse_list l = if l = "." then [] else split_on ',' l

(* split at " # " *)
let split_hash (s : string) : string list =
  let n = String.length s in
  let rec go start i acc =
    if i + 3 > n then List.rev (String.sub s start (n - start) :: acc)
    else if s.[i] = ' ' && s.[i + 1] = '#' && s.[i + 2] = ' ' then
      go (i + 3) (i + 3) (String.sub s start (i - start) :: acc)
    else go start (i + 1) acc
  in
  go 0 0 []

(* ---- ops ---------------------------------------------------------------- *)
let parse_mop (sub : string) : Model.mop =
  match split_on ':' sub with
  | [ "U"; k ] -> Model.MAddUnnamed (n_of_string k)
  | [ "N"; l ] -> Model.MAddNamed (List.map mname (parse_list l))
  | [ "S"; v; s ] -> Model.MSetName (n_of_string v, mname s)
  | [ "G"; s ] -> Model.MGetOrAdd (mname s)
  | _ -> failwith ("bad map op " ^ sub)

let fmt_res (r : Model.res) : string =
  match r with
  | Model.ROk (lo, hi) -> Printf.sprintf "ok:%s:%s" (string_of_n lo) (string_of_n hi)
  | Model.RUnit -> "u"
  | Model.RErr (s, p, lo, hi) ->
    Printf.sprintf "err:%s:%s:%s:%s" (hex_of_m s) (string_of_n p) (string_of_n lo) (string_of_n hi)
  | Model.RPanic -> "panic"
  | Model.RGet (v, f) -> Printf.sprintf "get:%s:%d" (string_of_n v) (if f then 1 else 0)

(* ---- the observable reported by the implementation --------------------- *)
type obs = { nvars : int; nlevels : int; nnamed : int; names : string array; (* hex *)
             lookups : (string * int option) list; levels : int array }

let parse_obs (counts : string) (names : string) (lookups : string) (levels : string) : obs =
  let c = List.map int_of_string (split_ws counts) in
  let lk =
    List.map
      (fun t ->
        match split_on '=' t with
        | [ h; "-" ] -> (h, None)
        | [ h; v ] -> (h, Some (int_of_string v))
        | _ -> failwith ("bad lookup " ^ t))
      (parse_list lookups)
  in
  { nvars = List.nth c 0; nlevels = List.nth c 1; nnamed = List.nth c 2;
    names = Array.of_list (parse_list names); lookups = lk;
    levels = Array.of_list (List.map int_of_string (parse_list levels)) }

exception Bad of string * string (* kind, message *)

let prop fmt = Printf.ksprintf (fun s -> raise (Bad ("prop", s))) fmt
let corr fmt = Printf.ksprintf (fun s -> raise (Bad ("corr", s))) fmt

(* the property's predicate on one observable *)
let check_consistent (o : obs) : unit =
  let n = o.nvars in
  if o.nlevels <> n then prop "num_levels=%d but num_vars=%d" o.nlevels n;
  if Array.length o.names <> n then prop "var_name answered for %d variables, num_vars=%d" (Array.length o.names) n;
  (* var_to_level is a permutation of the levels *)
  let seen = Array.make n false in
  Array.iter
    (fun l ->
      if l < 0 || l >= n || seen.(l) then prop "var_to_level is not a bijection onto the %d levels" n;
      seen.(l) <- true)
    o.levels;
  if Array.length o.levels <> n then prop "var_to_level answered for %d variables, num_vars=%d" (Array.length o.levels) n;
  (* name_to_var (var_name v) = v on the named variables *)
  Array.iteri
    (fun v h ->
      if h <> "_" then
        match List.assoc_opt h o.lookups with
        | Some (Some w) when w = v -> ()
        | Some (Some w) -> prop "var_name(%d)=%s but name_to_var(%s)=%d" v h h w
        | Some None -> prop "var_name(%d)=%s but name_to_var(%s)=None" v h h
        | None -> prop "variable %d carries the name %s that no call ever used" v h)
    o.names;
  (* var_name (name_to_var s) = s, only non-empty names are found *)
  List.iter
    (fun (h, r) ->
      match r with
      | None -> ()
      | Some v ->
        if h = "_" then prop "name_to_var(\"\")=%d" v;
        if v < 0 || v >= n then prop "name_to_var(%s)=%d but num_vars=%d" h v n;
        if o.names.(v) <> h then prop "name_to_var(%s)=%d but var_name(%d)=%s" h v v o.names.(v))
    o.lookups;
  let named = Array.fold_left (fun a h -> if h <> "_" then a + 1 else a) 0 o.names in
  if o.nnamed <> named then prop "num_named_vars=%d but %d variables carry a name" o.nnamed named

(* a rejected call reports the conflicting variable; what a failed call may
   have changed *)
let check_result (toks : string list) (res : string) (prev : obs) (o : obs) (var_resolved : int) : unit =
  let main = List.hd (split_on ';' res) in
  match (List.hd toks, split_on ':' main) with
  | ("N" | "M"), [ "err"; h; p; lo; hi ] ->
    let p = int_of_string p and lo = int_of_string lo and hi = int_of_string hi in
    if h = "_" then prop "the empty name reported as duplicate";
    if p < 0 || p >= o.nvars || o.names.(p) <> h then
      prop "rejected with present_var=%d for name %s, but that variable is named %s" p h
        (if p >= 0 && p < o.nvars then o.names.(p) else "(out of range)");
    if lo <> prev.nvars || hi <> o.nvars then
      prop "added_vars=%d..%d but the variables went from %d to %d" lo hi prev.nvars o.nvars;
    (* the old variables keep their names *)
    Array.iteri (fun v h0 -> if v >= o.nvars || o.names.(v) <> h0 then prop "a rejected add changed the name of old variable %d" v) prev.names
  | "S", ("err" :: h :: p :: _) ->
    let p = int_of_string p in
    if prev.names <> o.names || prev.nvars <> o.nvars || prev.nnamed <> o.nnamed then
      prop "a rejected set_var_name changed the state";
    if p = var_resolved then prop "set_var_name rejected with present_var = the variable itself";
    if p < 0 || p >= o.nvars || o.names.(p) <> h then
      prop "set_var_name rejected with present_var=%d for name %s, but that variable does not carry it" p h
  | "S", [ "panic" ] ->
    if prev.names <> o.names || prev.nvars <> o.nvars || prev.nnamed <> o.nnamed then
      prop "a panicking set_var_name changed the state";
    if var_resolved < prev.nvars then prop "set_var_name panicked for the existing variable %d" var_resolved
  | _ -> ()

(* adding variables never changes the function of a handle *)
let check_sem (sem : string) : int =
  let body = String.sub sem 4 (String.length sem - 4) in
  let entries = split_on ',' body in
  List.iter
    (fun e ->
      match split_on '|' e with
      | [ h; before; a0; a1; ar ] ->
        if a0 <> before || a1 <> before || ar <> before then
          prop "adding variables changed the function of handle %s: before=%s new-vars-false=%s new-vars-true=%s random=%s" h
            before a0 a1 ar
      | _ -> failwith ("bad sem entry " ^ e))
    entries;
  List.length entries

let () =
  iter_cases stdin (fun c ->
      let g = ref Model.mgr_new in
      let prev = ref { nvars = 0; nlevels = 0; nnamed = 0; names = [||]; lookups = []; levels = [||] } in
      let bad = ref false in
      let rejected = ref 0 and renames = ref 0 and sems = ref 0 in
      List.iteri
        (fun i l ->
          if not !bad then
            if l = "HANG" then (
              bad := true;
              verdict_bad c i "prop" "implementation did not terminate (watchdog)")
            else if String.length l >= 5 && (String.sub l 0 5 = "PANIC" || String.sub l 0 5 = "CRASH") then (
              bad := true;
              verdict_bad c i "prop" ("implementation failed: " ^ l))
            else
              try
                let ops, rest = split_arrow l in
                let toks = split_ws ops in
                let parts = split_hash rest in
                let res, counts, names, lookups, levels, sem =
                  match parts with
                  | [ r; c; n; lk; lv ] -> (r, c, n, lk, lv, None)
                  | [ r; c; n; lk; lv; s ] -> (r, c, n, lk, lv, Some s)
                  | _ -> failwith ("bad line " ^ l)
                in
                let o = parse_obs counts names lookups levels in
                stat ("op_" ^ List.hd toks) 1;
                let var_resolved = ref (-1) in
                (* the model's step *)
                let mres =
                  let nv = Model.num_vars !g in
                  let mo =
                    match toks with
                    | [ "V"; k ] -> Some (Model.OAddVars (n_of_string k))
                    | [ "N"; l ] -> Some (Model.OAddNamed (List.map mname (parse_list l)))
                    | [ "S"; v; s ] ->
                      let v = if v = "L" then max (int_of_n nv - 1) 0 else int_of_string v in
                      var_resolved := v;
                      Some (Model.OSetName (n_of_int v, mname s))
                    | [ "M"; b ] -> Some (Model.OFromMap (if b = "-" then [] else List.map parse_mop (split_on ';' b)))
                    | ("F" | "G" | "R") :: _ -> None
                    | _ -> failwith ("unknown op " ^ ops)
                  in
                  match mo with
                  | None -> None
                  | Some mo ->
                    let g', (r, rs) = Model.step !g mo in
                    g := g';
                    Some (String.concat ";" (List.map fmt_res (r :: rs)))
                in
                (* 1. the property on the implementation's own answers *)
                check_consistent o;
                check_result toks res !prev o !var_resolved;
                (match sem with Some s -> sems := !sems + check_sem s | None -> ());
                (match toks with
                | ("F" | "G" | "R") :: _ ->
                  if !prev.names <> o.names || !prev.nnamed <> o.nnamed then
                    prop "handle creation / gc / reordering changed the variable names"
                | _ -> ());
                (* 2. the model *)
                (match mres with
                | Some m -> if m <> res then corr "op=[%s] impl=[%s] model=[%s]" ops res m
                | None -> ());
                let gm = !g in
                let mi f = int_of_n (f gm) in
                if mi Model.num_vars <> o.nvars || mi Model.num_levels <> o.nlevels || mi Model.num_named_vars <> o.nnamed then
                  corr "op=[%s] counts impl=%d/%d/%d model=%d/%d/%d" ops o.nvars o.nlevels o.nnamed (mi Model.num_vars)
                    (mi Model.num_levels) (mi Model.num_named_vars);
                Array.iteri
                  (fun v h ->
                    match Model.m_var_name gm (n_of_int v) with
                    | Some s when hex_of_m s = h -> ()
                    | Some s -> corr "op=[%s] var_name(%d) impl=%s model=%s" ops v h (hex_of_m s)
                    | None -> corr "op=[%s] var_name(%d) impl=%s model=out-of-range" ops v h)
                  o.names;
                List.iter
                  (fun (h, r) ->
                    let m = match Model.m_name_to_var gm (mname h) with Some v -> Some (int_of_n v) | None -> None in
                    if m <> r then
                      corr "op=[%s] name_to_var(%s) impl=%s model=%s" ops h
                        (match r with Some v -> string_of_int v | None -> "-")
                        (match m with Some v -> string_of_int v | None -> "-"))
                  o.lookups;
                (* statistics *)
                if String.length res >= 3 && String.sub res 0 3 = "err" then incr rejected;
                (match toks with
                | [ "S"; _; s ] when s <> "_" && !var_resolved < Array.length !prev.names
                                     && !prev.names.(!var_resolved) <> "_" && !prev.names.(!var_resolved) <> s && res = "u" ->
                  incr renames
                | _ -> ());
                prev := o
              with
              | Bad (kind, msg) ->
                bad := true;
                verdict_bad c i kind msg
              | Failure msg | Invalid_argument msg ->
                bad := true;
                verdict_bad c i "corr" ("driver could not read the trace: " ^ msg))
        c.lines;
      stat "cases" 1;
      stat "steps" (List.length c.lines);
      stat "rejected_calls" !rejected;
      stat "renames" !renames;
      stat "sem_handle_checks" !sems;
      if !rejected > 0 then stat "cases_with_rejected_call" 1;
      if !renames > 0 then stat "cases_with_rename" 1;
      if not !bad then verdict_ok c);
  dump_stats ()
