(* C17 driver: replays every op of the implementation's trace on the extracted
   model of RawTable and on the reference set, and compares spec-determined
   observables (returned values, len, element multiset). *)
open Conv

let parse_op (toks : string list) : Model.op =
  let a i = n_of_string (List.nth toks i) in
  match List.hd toks with
  | "I" -> Model.OInsert (a 1)
  | "R" -> Model.ORemove (a 1)
  | "L" -> Model.OLookup (a 1)
  | "T" -> Model.ORetain (a 1, a 2)
  | "V" -> Model.OReserve (a 1)
  | "C" -> Model.OClear
  | "D" -> Model.ODrain
  | "E" | "M" -> Model.OIter
  | "N" -> Model.OLen
  | "K" -> Model.OClone
  | "W" -> Model.OWithCap (a 1)
  | "P" -> Model.ODrainPart (a 1)
  | "X" -> Model.OIntoIter
  | o -> failwith ("unknown op " ^ o)

let sorted_strs l = List.sort compare (List.map z_of_n l) |> List.map Z.to_string

let fmt_out (o : Model.out) : string =
  match o with
  | Model.RBool true -> "b1"
  | Model.RBool false -> "b0"
  | Model.ROpt None -> "o-"
  | Model.ROpt (Some v) -> "o" ^ string_of_n v
  | Model.RList l -> String.concat " " ("l" :: sorted_strs l)
  | Model.RNum x -> "n" ^ string_of_n x
  | Model.RUnit -> "u"
  | Model.RDiverge -> "DIVERGE"

(* reference set: the abstract spec (sorted list of Zarith ints) *)
module ZS = Set.Make (Z)

let spec_step (s : ZS.t) (o : Model.op) : ZS.t * string =
  let z = z_of_n in
  let lst l = String.concat " " ("l" :: List.map Z.to_string l) in
  match o with
  | Model.OInsert k -> if ZS.mem (z k) s then (s, "b0") else (ZS.add (z k) s, "b1")
  | Model.ORemove k -> if ZS.mem (z k) s then (ZS.remove (z k) s, "o" ^ Z.to_string (z k)) else (s, "o-")
  | Model.OLookup k -> (s, if ZS.mem (z k) s then "o" ^ Z.to_string (z k) else "o-")
  | Model.ORetain (m, r) ->
    let keep x = not (Z.equal (Z.rem x (z m)) (z r)) in
    (ZS.filter keep s, lst (ZS.elements (ZS.filter (fun x -> not (keep x)) s)))
  | Model.OReserve _ | Model.OClone -> (s, "u")
  | Model.OClear -> (ZS.empty, "u")
  | Model.OWithCap _ -> (ZS.empty, "u")
  | Model.ODrain | Model.OIntoIter -> (ZS.empty, lst (ZS.elements s))
  | Model.ODrainPart _ -> (ZS.empty, "?")
  | Model.OIter -> (s, lst (ZS.elements s))
  | Model.OLen -> (s, "n" ^ string_of_int (ZS.cardinal s))

let () =
  iter_cases stdin (fun c ->
      let sbits = n_of_int (param_int c "sbits" 31) in
      let hid = n_of_int (param_int c "hash" 1) in
      let hash = Model.hash_fn hid in
      let t = ref Model.empty in
      let s = ref ZS.empty in
      let bad = ref false in
      List.iteri
        (fun i l ->
          if not !bad then
            if l = "HANG" then (
              bad := true;
              verdict_bad c i "prop" "implementation did not terminate (watchdog)")
            else if String.length l >= 5 && String.sub l 0 5 = "PANIC" then (
              bad := true;
              verdict_bad c i "prop" ("implementation panicked: " ^ l))
            else
              let ops, res = split_arrow l in
              let toks = split_ws ops in
              let o = parse_op toks in
              let t', mo = Model.step sbits hash !t o in
              let s', so = spec_step !s o in
              stat ("op_" ^ List.hd toks) 1;
              let ms = fmt_out mo in
              (match o with
              | Model.ODrainPart j ->
                (* which elements come first is layout-dependent: check only
                   count, distinctness and membership *)
                let got = List.tl (split_ws res) |> List.map Z.of_string in
                let want = min (Z.to_int (z_of_n j)) (ZS.cardinal !s) in
                let distinct = List.length (List.sort_uniq Z.compare got) = List.length got in
                if List.length got <> want || (not distinct) || not (List.for_all (fun x -> ZS.mem x !s) got)
                then (
                  bad := true;
                  verdict_bad c i "prop"
                    (Printf.sprintf "partial drain returned [%s], set has %d elements" res (ZS.cardinal !s)))
              | _ ->
                if res <> so then (
                  bad := true;
                  verdict_bad c i "prop" (Printf.sprintf "op=[%s] impl=[%s] set-spec=[%s] model=[%s]" ops res so ms))
                else if ms <> so then (
                  (* model and spec disagree: the model theorem's hypotheses fail here *)
                  bad := true;
                  verdict_bad c i "corr" (Printf.sprintf "op=[%s] impl=[%s] model=[%s]" ops res ms)));
              t := t';
              s := s')
        c.lines;
      stat "cases" 1;
      stat "steps" (List.length c.lines);
      if ZS.cardinal !s > 12 then stat "cases_grown" 1;
      if not !bad then verdict_ok c);
  dump_stats ()
