(* C18 driver.

   Circuit cases ([C] lines): the original circuit, the chosen roots and the
   answer of the real [Circuit::simplify] are parsed; the EXTRACTED checkers
   (Model.ok_answer_b / Model.err_answer_b, specified in coq/IO/CircuitProofs.v)
   decide the property predicate on that answer -> kind=prop on failure.  Then
   the extracted model simplifier runs on the same input and its own output is
   compared with the implementation's -> kind=corr on a difference.

   Parser cases ([P], [B], [Q], [V] lines): totality and aag/aig agreement are
   observations of the real parsers (a search, no model); only the 7-bit varint
   / delta codec ([V]) is compared with the extracted model of coq/IO/Aiger.v.

   AIGER cases ([A], [D] lines, C18p): the extracted model of the whole AIGER reader
   (coq/IO/AigerParse.v) runs on the same bytes, see c18p.ml; [driver genaig <tier>
   <seed>] writes the cases of generated well-formed problems. *)
open Conv

let nat = nat_of_int

let parse_lit (t : string) : Model.lit =
  match t with
  | "F" -> Model.L (false, Model.AConst)
  | "T" -> Model.L (true, Model.AConst)
  | "+U" -> Model.L (false, Model.AUndef)
  | "-U" -> Model.L (true, Model.AUndef)
  | _ ->
    let s = match t.[0] with '+' -> false | '-' -> true | _ -> failwith ("bad literal " ^ t) in
    let k = int_of_string (String.sub t 2 (String.length t - 2)) in
    (match t.[1] with
     | 'i' -> Model.L (s, Model.AIn (nat k))
     | 'g' -> Model.L (s, Model.AGate (nat k))
     | _ -> failwith ("bad literal " ^ t))

let fmt_lit (l : Model.lit) : string =
  match l with
  | Model.L (false, Model.AConst) -> "F"
  | Model.L (true, Model.AConst) -> "T"
  | Model.L (false, Model.AUndef) -> "+U"
  | Model.L (true, Model.AUndef) -> "-U"
  | Model.L (s, Model.AIn i) -> Printf.sprintf "%ci%d" (if s then '-' else '+') (int_of_nat i)
  | Model.L (s, Model.AGate g) -> Printf.sprintf "%cg%d" (if s then '-' else '+') (int_of_nat g)

let parse_gate (s : string) : Model.gate option =
  match split_ws s with
  | [] -> None
  | k :: ls ->
    let gk = match k with "A" -> Model.And | "O" -> Model.Or | "X" -> Model.Xor | _ -> failwith ("bad kind " ^ k) in
    Some { Model.gk; gins = List.map parse_lit ls }

let parse_gates (s : string) : Model.gate list =
  List.filter_map parse_gate (String.split_on_char ';' s)

let fmt_gate (g : Model.gate) : string =
  String.concat " "
    ((match g.Model.gk with Model.And -> "A" | Model.Or -> "O" | Model.Xor -> "X") :: List.map fmt_lit g.Model.gins)

let fmt_gates gs = String.concat " ; " (List.map fmt_gate gs)
let fmt_lits ls = String.concat " " (List.map fmt_lit ls)

let sections (s : string) : string list = List.map String.trim (String.split_on_char '|' s)

let starts_with p s = String.length s >= String.length p && String.sub s 0 (String.length p) = p

(* which conjunct of ok_answer_b fails (for the message only) *)
let why_not_ok c roots c' gm =
  let n = c.Model.n_inputs in
  let obs = Model.observed c roots in
  if Model.should_err_b c roots then "Ok although the reachable fragment has a cycle or mentions an unknown input"
  else if int_of_nat c'.Model.n_inputs <> int_of_nat n then "number of inputs changed"
  else if not (Model.nf_b c') then "result violates the normal form (5 conditions / scope / topological order)"
  else if not (Model.map_consistent_b c c' gm roots) then "gate map inconsistent with the new circuit"
  else if not (Model.defined_b n c obs) then "an observed literal has no value in the old circuit"
  else if not (Model.equiv_b n c c' gm obs) then "a root / reachable gate denotes a different function through the gate map"
  else "?"

let handle_circ c i (opl : string) (res : string) : bool =
  (* returns true iff a bad verdict was printed *)
  let secs = sections (String.sub opl 1 (String.length opl - 1)) in
  let n, gates, roots =
    match secs with
    | [ n; gs; rs ] -> (int_of_string n, parse_gates gs, List.map parse_lit (split_ws rs))
    | _ -> failwith ("bad C line: " ^ opl)
  in
  let circ = { Model.n_inputs = nat n; gates } in
  let closed = Model.closed_b circ roots in
  let model = Model.simplify circ roots in
  stat "circ_cases" 1;
  let model_txt =
    match model with
    | Model.Ok (c', gm) -> Printf.sprintf "OK | %s | %s" (fmt_gates c'.Model.gates) (fmt_lits gm)
    | Model.Err l -> "ERR " ^ fmt_lit l
    | Model.Crash -> "CRASH"
    | Model.Fuel -> "FUEL"
  in
  if not closed then begin
    (* a gate literal without gate: outside the documented domain; the Rust code
       indexes out of bounds exactly where the model says Crash *)
    stat "circ_dangling" 1;
    let impl_class = if starts_with "PANIC" res then "CRASH" else if starts_with "OK" res then "OK" else "ERR" in
    let model_class = match model with Model.Ok _ -> "OK" | Model.Err _ -> "ERR" | _ -> "CRASH" in
    if impl_class = "CRASH" then stat "circ_dangling_panic" 1;
    if impl_class <> model_class then begin
      verdict_bad c i "corr" (Printf.sprintf "dangling gate reference: impl=[%s] model=[%s]" res model_txt);
      true
    end
    else false
  end
  else if starts_with "PANIC" res then begin
    verdict_bad c i "prop" (Printf.sprintf "simplify panicked on a closed circuit: %s (model: %s)" res model_txt);
    true
  end
  else if starts_with "ERR" res then begin
    stat "circ_err" 1;
    let l = parse_lit (List.nth (split_ws res) 1) in
    if not (Model.err_answer_b circ roots l) then begin
      verdict_bad c i "prop"
        (Printf.sprintf "Err(%s) is not justified (no reachable cycle through it / not an unknown input of a reachable gate); should_err=%b model=[%s]"
           (fmt_lit l) (Model.should_err_b circ roots) model_txt);
      true
    end
    else
      match model with
      | Model.Err l' ->
        if Model.lit_eqb l l' then stat "circ_err_same_literal" 1;
        false
      | _ ->
        verdict_bad c i "corr" (Printf.sprintf "impl=[%s] model=[%s]" res model_txt);
        true
  end
  else begin
    stat "circ_ok" 1;
    let c', gm, mapped =
      match sections res with
      | [ _ok; gs; gm; mr ] ->
        ({ Model.n_inputs = nat n; gates = parse_gates gs }, List.map parse_lit (split_ws gm), List.map parse_lit (split_ws mr))
      | _ -> failwith ("bad result: " ^ res)
    in
    if c'.Model.gates <> [] then stat "circ_ok_with_gates" 1;
    if List.length c'.Model.gates < List.length gates then stat "circ_ok_shrunk" 1;
    let want_mapped = List.map (Model.apply_gate_map gm) roots in
    if not (Model.ok_answer_b circ roots c' gm) then begin
      verdict_bad c i "prop" (Printf.sprintf "%s; impl=[%s] model=[%s]" (why_not_ok circ roots c' gm) res model_txt);
      true
    end
    else if List.map fmt_lit want_mapped <> List.map fmt_lit mapped then begin
      verdict_bad c i "prop"
        (Printf.sprintf "Literal::apply_gate_map: roots map to [%s], expected [%s]" (fmt_lits mapped) (fmt_lits want_mapped));
      true
    end
    else
      match model with
      | Model.Ok (c'', gm'') ->
        (* the model mirrors numbering and input order of the code, so the outputs are
           expected to be identical; a difference that keeps the property is kind=corr *)
        if fmt_gates c''.Model.gates = fmt_gates c'.Model.gates && fmt_lits gm'' = fmt_lits gm then false
        else begin
          verdict_bad c i "corr" (Printf.sprintf "impl=[%s] model=[%s]" res model_txt);
          true
        end
      | _ ->
        verdict_bad c i "corr" (Printf.sprintf "impl=[%s] model=[%s]" res model_txt);
        true
  end

let hex_bytes (s : string) : Model.n list =
  if s = "-" then []
  else List.init (String.length s / 2) (fun i -> n_of_int (int_of_string ("0x" ^ String.sub s (2 * i) 2)))

let handle_varint c i (opl : string) (res : string) : bool =
  match (split_ws opl, split_ws res) with
  | [ _; inputs; d1; d2 ], hexs :: rest ->
    let lhs = Z.mul (Z.of_int 2) (Z.succ (Z.of_string inputs)) in
    let d1 = Z.of_string d1 and d2 = Z.of_string d2 in
    let bytes = hex_bytes hexs in
    stat "varint_cases" 1;
    (* the bytes the harness wrote are the model's encoding *)
    let enc = Model.app (Model.encode7 (n_of_z d1)) (Model.encode7 (n_of_z d2)) in
    if List.map string_of_n enc <> List.map string_of_n bytes then begin
      verdict_bad c i "corr" (Printf.sprintf "op=[%s] harness encoding=[%s] differs from the model encoder" opl hexs);
      true
    end
    else begin
      let model =
        match Model.decode_gate (n_of_z lhs) bytes with
        | Some (Some (a, b), []) -> Printf.sprintf "%s %s" (string_of_n a) (string_of_n b)
        | Some (None, []) -> "DIAG"
        | _ -> "UNDECODED"
      in
      let impl = String.concat " " rest in
      if impl <> model then begin
        verdict_bad c i "prop" (Printf.sprintf "op=[%s] binary AND gate decoded to [%s], codec model says [%s]" opl impl model);
        true
      end
      else false
    end
  | _ -> failwith ("bad V line: " ^ opl)

let () =
  if Array.length Sys.argv >= 4 && Sys.argv.(1) = "genaig" then (
    C18p.gen Sys.argv.(2) Sys.argv.(3);
    exit 0);
  if Array.length Sys.argv >= 4 && Sys.argv.(1) = "genq" then (
    C18q.gen Sys.argv.(2) Sys.argv.(3);
    exit 0);
  iter_cases stdin (fun c ->
      let bad = ref false in
      List.iteri
        (fun i l ->
          if not !bad then
            if l = "HANG" then (
              bad := true;
              verdict_bad c i "prop" "implementation did not terminate (watchdog)")
            else if starts_with "PANIC" l then (
              bad := true;
              stat "panics" 1;
              verdict_bad c i "prop" ("implementation panicked: " ^ l))
            else if starts_with "CRASH" l then (
              bad := true;
              verdict_bad c i "prop" ("implementation process died: " ^ l))
            else
              let opl, res = split_arrow l in
              match opl.[0] with
              | 'C' -> if handle_circ c i opl res then bad := true
              | 'P' ->
                stat "parse_inputs" 1;
                if starts_with "OK" res then stat "parse_ok" 1
                else if res = "DIAG" then stat "parse_diag" 1
                else (
                  bad := true;
                  verdict_bad c i "prop" ("parser returned neither a problem nor a diagnostic: " ^ res))
              | 'B' ->
                List.iter
                  (fun t ->
                    match String.split_on_char '=' t with
                    | [ "n"; v ] -> stat "parse_inputs" (int_of_string v)
                    | [ "ok"; v ] -> stat "parse_ok" (int_of_string v)
                    | [ "diag"; v ] -> stat "parse_diag" (int_of_string v)
                    | [ "panics"; v ] -> stat "parse_panics" (int_of_string v)
                    | _ -> ())
                  (split_ws res)
              | 'Q' ->
                stat "pair_cases" 1;
                if starts_with "SAME" res then stat "pair_same" 1
                else if res = "ERRBOTH" then (
                  (* the generator is meant to write valid files only *)
                  bad := true;
                  verdict_bad c i "corr" "generated aag/aig pair rejected by the parser in both forms")
                else (
                  bad := true;
                  verdict_bad c i "prop" ("equivalent aag / aig files do not parse to the same problem: " ^ res))
              | 'V' -> if handle_varint c i opl res then bad := true
              | 'S' ->
                stat "stack_probes" 1;
                if res <> "OK" then (
                  bad := true;
                  verdict_bad c i "prop" ("valid input of large nesting / chain depth: " ^ res))
              | 'A' -> if C18p.handle_a c i opl res then bad := true
              | 'D' -> C18p.handle_d res
              | 'N' -> if C18p.handle_n c i opl res then bad := true
              | 'M' -> C18p.handle_m res
              | 'X' -> if C18q.handle_x c i opl res then bad := true
              | 'Y' -> C18q.handle_y opl res
              | _ -> failwith ("unknown line " ^ l))
        c.lines;
      stat "cases" 1;
      if not !bad then verdict_ok c);
  dump_stats ()
