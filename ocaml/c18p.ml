(* C18p: the extracted model of the AIGER reader (coq/IO/AigerParse.v) against the
   real parser.

   [A <opts> <hex>] lines: the harness printed what [oxidd_parser::aiger::parse]
   returned for the bytes (a field-by-field dump of the problem, DIAG, or PANIC);
   the model parser runs on the same bytes.
     - PANIC                                         -> kind=prop
     - case type aigwf (a file written by the MODEL's printer from a generated
       well-formed problem): real parser rejects it  -> kind=prop
       the aag and the aig file of the pair parse to different problems -> kind=prop
     - accept/reject decision differs on another input, or both accept and a
       field differs                                 -> kind=corr
   [genaig]: writes the aigwf cases (random well-formed problems, printed in both
   formats by Model.print_aag / Model.print_aig).

   Trusted glue: hex conversion, the dump format, the UTF-8 validity test (names
   that are not valid UTF-8 are not compared: the real parser converts them with
   String::from_utf8_lossy, the model keeps the bytes). *)
open Conv

let bytes_of_hex (s : string) : Model.n list =
  if s = "-" then []
  else List.init (String.length s / 2) (fun i -> n_of_int (int_of_string ("0x" ^ String.sub s (2 * i) 2)))

let hex_of_bytes (l : Model.n list) : string =
  if l = [] then "-" else String.concat "" (List.map (fun b -> Printf.sprintf "%02x" (int_of_n b)) l)

let fmt_alit (l : Model.alit) : string =
  match l with
  | Model.ALConst false -> "F"
  | Model.ALConst true -> "T"
  | Model.ALUndef false -> "+U"
  | Model.ALUndef true -> "-U"
  | Model.ALIn (s, k) -> Printf.sprintf "%ci%s" (if s then '-' else '+') (string_of_n k)
  | Model.ALGate (s, g) -> Printf.sprintf "%cg%s" (if s then '-' else '+') (string_of_n g)

let fmt_alits ls = String.concat " " (List.map fmt_alit ls)

let valid_utf8 (b : int list) : bool =
  (* RFC 3629, as std::str::from_utf8 *)
  let rec go = function
    | [] -> true
    | c :: r when c < 0x80 -> go r
    | c :: c1 :: r when c >= 0xC2 && c <= 0xDF && c1 land 0xC0 = 0x80 -> go r
    | c :: c1 :: c2 :: r
      when c >= 0xE0 && c <= 0xEF && c1 land 0xC0 = 0x80 && c2 land 0xC0 = 0x80
           && (c <> 0xE0 || c1 >= 0xA0) && (c <> 0xED || c1 <= 0x9F) -> go r
    | c :: c1 :: c2 :: c3 :: r
      when c >= 0xF0 && c <= 0xF4 && c1 land 0xC0 = 0x80 && c2 land 0xC0 = 0x80 && c3 land 0xC0 = 0x80
           && (c <> 0xF0 || c1 >= 0x90) && (c <> 0xF4 || c1 <= 0x8F) -> go r
    | _ -> false
  in
  go b

let all_names (s : Model.asyms) =
  List.concat [ s.Model.sy_in; s.Model.sy_out; s.Model.sy_bad; s.Model.sy_inv; s.Model.sy_just; s.Model.sy_fair ]

let names_utf8 (p : Model.aproblem) : bool =
  List.for_all
    (function None -> true | Some n -> valid_utf8 (List.map int_of_n n))
    (all_names p.Model.ap_syms)

let fmt_names (l : Model.aname option list) (count : int) : string =
  String.concat " "
    (List.init count (fun i ->
         match List.nth_opt l i with
         | Some (Some n) -> "=" ^ if n = [] then "" else hex_of_bytes n
         | _ -> "-"))

(* the same text as [dump_aiger] of harness/src/bin/h_circ.rs *)
let dump (p : Model.aproblem) : string * string =
  let nl = List.length p.Model.ap_latches in
  let nv = Z.add (z_of_n p.Model.ap_inputs) (Z.of_int nl) in
  let s = p.Model.ap_syms in
  let body =
    Printf.sprintf "in=%s nv=%s | lat %s | res %s | out %s | bad %s | inv %s | just %s | fair %s | ands %s | map %s"
      (string_of_n p.Model.ap_inputs) (Z.to_string nv) (fmt_alits p.Model.ap_latches)
      (String.concat " "
         (List.map (function Some false -> "0" | Some true -> "1" | None -> "x") p.Model.ap_resets))
      (fmt_alits p.Model.ap_outputs) (fmt_alits p.Model.ap_bad) (fmt_alits p.Model.ap_inv)
      (String.concat " " (List.map (fun js -> fmt_alits js ^ ";") p.Model.ap_justice))
      (fmt_alits p.Model.ap_fair)
      (String.concat " " (List.map (fun (a, b) -> Printf.sprintf "A:%s&%s" (fmt_alit a) (fmt_alit b)) p.Model.ap_ands))
      (fmt_alits p.Model.ap_map)
  in
  let names =
    Printf.sprintf "i[%s] o[%s] b[%s] c[%s] j[%s] f[%s]"
      (fmt_names s.Model.sy_in (Z.to_int nv))
      (fmt_names s.Model.sy_out (List.length p.Model.ap_outputs))
      (fmt_names s.Model.sy_bad (List.length p.Model.ap_bad))
      (fmt_names s.Model.sy_inv (List.length p.Model.ap_inv))
      (fmt_names s.Model.sy_just (List.length p.Model.ap_justice))
      (fmt_names s.Model.sy_fair (List.length p.Model.ap_fair))
  in
  (body, names)

let starts_with p s = String.length s >= String.length p && String.sub s 0 (String.length p) = p

(* split "body | names xyz" *)
let split_names (d : string) : string * string =
  let key = " | names " in
  let n = String.length d and k = String.length key in
  let rec find i = if i + k > n then None else if String.sub d i k = key then Some i else find (i + 1) in
  match find 0 with
  | Some i -> (String.sub d 0 i, String.sub d (i + k) (n - i - k))
  | None -> (d, "")

let first_diff (a : string) (b : string) : string =
  let sa = String.split_on_char '|' a and sb = String.split_on_char '|' b in
  let rec go = function
    | x :: xs, y :: ys -> if x = y then go (xs, ys) else Printf.sprintf "impl[%s] model[%s]" (String.trim x) (String.trim y)
    | _ -> "different number of sections"
  in
  go (sa, sb)

(* real result of the first file of an aigwf pair *)
let pair_first : (string * string) option ref = ref None

(* returns true iff a bad verdict was printed *)
let handle_a c i (opl : string) (res : string) : bool =
  match split_ws opl with
  | [ _; mask; hexs ] ->
    let wf = param c "t" = Some "aigwf" in
    let check_acyclic = int_of_string mask land 4 <> 0 in
    let bytes = bytes_of_hex hexs in
    let model = Model.parse_aiger check_acyclic bytes in
    stat "aig_inputs" 1;
    let bad kind msg =
      verdict_bad c i kind (Printf.sprintf "%s; input=%s" msg hexs);
      true
    in
    if starts_with "PANIC" res then (
      stat "aig_panics" 1;
      bad "prop" ("AIGER parser panicked: " ^ res))
    else begin
      match model with
      | Model.PFuel -> bad "corr" "model parser ran out of fuel (excluded by theorem C18_aiger_parse_total)"
      | Model.PErr ->
        if res = "DIAG" then (
          stat "aig_both_diag" 1;
          if wf then bad "corr" "generated well-formed file rejected by model and implementation" else false)
        else bad "corr" ("model says diagnostic, the implementation accepts: " ^ res)
      | Model.POk p ->
        if res = "DIAG" then
          if wf then bad "prop" "well-formed AIGER file (written by the model's printer from a well-formed problem) rejected with a diagnostic"
          else bad "corr" "model accepts, the implementation returns a diagnostic"
        else if not (starts_with "OK " res) then bad "corr" ("unexpected result " ^ res)
        else begin
          stat "aig_both_ok" 1;
          let d = String.sub res 3 (String.length res - 3) in
          let ibody, inames = split_names d in
          let mbody, mnames = dump p in
          let utf8 = names_utf8 p in
          if not utf8 then stat "aig_names_not_utf8" 1;
          if ibody <> mbody then bad "corr" ("parsed problem differs from the model's: " ^ first_diff ibody mbody)
          else if utf8 && inames <> mnames then
            bad "corr" (Printf.sprintf "symbol names differ: impl[%s] model[%s]" inames mnames)
          else if wf then begin
            (* the file must be the model's print of the problem it parses to *)
            let binary = match bytes with _ :: b :: _ -> int_of_n b = 105 | _ -> false in
            let printed = if binary then Model.print_aig p else Model.print_aag p in
            if not (Model.wf_b p) then bad "corr" "generated problem is not well-formed (wf_b)"
            else if hex_of_bytes printed <> hexs then bad "corr" "file is not the model's print of its parse"
            else
              match !pair_first with
              | Some (cid, first) when cid = case_id c ->
                pair_first := None;
                stat "aig_wf_pairs" 1;
                if first <> d then
                  bad "prop" ("equivalent aag / aig files parse to different problems: " ^ first_diff first d)
                else (
                  stat "aig_wf_pairs_same" 1;
                  false)
              | _ ->
                pair_first := Some (case_id c, d);
                false
          end
          else false
        end
    end
  | _ -> failwith ("bad A line: " ^ opl)

let handle_d (res : string) : unit =
  List.iter
    (fun t ->
      match String.split_on_char '=' t with
      | [ "n"; v ] -> stat "aig_mutated_inputs" (int_of_string v)
      | [ "skipped"; v ] -> stat "aig_mutated_skipped" (int_of_string v)
      | _ -> ())
    (split_ws res)

(* ---- DIMACS CNF ------------------------------------------------------------- *)

let dump_cnf (p : Model.dproblem) : string =
  Printf.sprintf "nv=%s | gates %s | root %s | names=false order=0" (string_of_n p.Model.dp_nvars)
    (String.concat " "
       (List.map
          (fun (k, ins) ->
            Printf.sprintf "%c:%s"
              (match k with Model.DOr -> 'O' | Model.DXor -> 'X' | Model.DAnd -> 'A')
              (String.concat "&" (List.map fmt_alit ins)))
          p.Model.dp_gates))
    (fmt_alit p.Model.dp_root)

(* [N <opts> <hex>]: only the options without variable order / clause tree are modelled *)
let handle_n c i (opl : string) (res : string) : bool =
  match split_ws opl with
  | [ _; mask; hexs ] ->
    let wf = param c "t" = Some "cnfwf" in
    stat "cnf_inputs" 1;
    let bad kind msg =
      verdict_bad c i kind (Printf.sprintf "%s; input=%s" msg hexs);
      true
    in
    if starts_with "PANIC" res then (
      stat "cnf_panics" 1;
      bad "prop" ("DIMACS parser panicked: " ^ res))
    else if int_of_string mask land 3 <> 0 then false
    else begin
      match Model.parse_cnf (bytes_of_hex hexs) with
      | Model.DSat ->
        stat "cnf_sat_format" 1;
        false
      | Model.DFuel -> bad "corr" "model parser ran out of fuel (excluded by theorem C18_dimacs_cnf_total)"
      | Model.DErr ->
        if res = "DIAG" then (
          stat "cnf_both_diag" 1;
          if wf then bad "corr" "generated CNF file rejected by model and implementation" else false)
        else bad "corr" ("model says diagnostic, the implementation accepts: " ^ res)
      | Model.DOk p ->
        if res = "DIAG" then
          if wf then bad "prop" "well-formed CNF file (written by the model's printer) rejected with a diagnostic"
          else bad "corr" "model accepts, the implementation returns a diagnostic"
        else begin
          stat "cnf_both_ok" 1;
          let d = if starts_with "OK " res then String.sub res 3 (String.length res - 3) else res in
          let m = dump_cnf p in
          if d <> m then bad "corr" ("parsed problem differs from the model's: " ^ first_diff d m) else false
        end
    end
  | _ -> failwith ("bad N line: " ^ opl)

let handle_m (res : string) : unit =
  List.iter
    (fun t ->
      match String.split_on_char '=' t with
      | [ "n"; v ] -> stat "cnf_mutated_inputs" (int_of_string v)
      | [ "skipped"; v ] -> stat "cnf_mutated_skipped" (int_of_string v)
      | _ -> ())
    (split_ws res)

(* ---- generator of well-formed problems ------------------------------------ *)

let rng_state = ref 0L

let next () : int =
  (* splitmix64, 62 bits *)
  rng_state := Int64.add !rng_state 0x9E3779B97F4A7C15L;
  let z = !rng_state in
  let z = Int64.mul (Int64.logxor z (Int64.shift_right_logical z 30)) 0xBF58476D1CE4E5B9L in
  let z = Int64.mul (Int64.logxor z (Int64.shift_right_logical z 27)) 0x94D049BB133111EBL in
  let z = Int64.logxor z (Int64.shift_right_logical z 31) in
  Int64.to_int (Int64.shift_right_logical z 2)

let below n = if n <= 0 then 0 else next () mod n
let chance a b = below b < a

let name_alphabet = "abcxyzABC019_~[]().,:;<>= \t-+*/\\\"'#"

let gen_name () : Model.n list =
  let len = below 7 in
  let raw = List.init len (fun _ -> Char.code name_alphabet.[below (String.length name_alphabet)]) in
  (* no leading / trailing blank (the reader trims them) *)
  let is_blank c = c = 32 || c = 9 in
  let rec drop = function c :: r when is_blank c -> drop r | l -> l in
  let raw = List.rev (drop (List.rev (drop raw))) in
  let raw = if chance 1 10 then raw @ [ 0xC3; 0xA4 ] else raw in
  List.map n_of_int raw

let gen_names (count : int) : Model.aname option list =
  if count = 0 || chance 1 2 then []
  else
    (* long vectors get a few names only (the model's name vectors are lists) *)
    let den = if count > 20 then count / 3 else 2 in
    let l = List.init count (fun _ -> if chance 1 den then Some (gen_name ()) else None) in
    if List.exists (fun x -> x <> None) l then l else []

(* AIGER number -> literal, variables numbered in order *)
let lit_of_aig (fa : int) (x : int) : Model.alit =
  let v = x / 2 and neg = x land 1 = 1 in
  if v >= fa then Model.ALGate (neg, n_of_int (v - fa))
  else if v = 0 then Model.ALConst neg
  else Model.ALIn (neg, n_of_int (v - 1))

let gen_problem (huge : bool) : Model.aproblem =
  (* size classes: small; medium (two-byte deltas in the binary format); huge (three-byte deltas) *)
  let big = huge || chance 1 12 in
  let ni = if huge then 8200 + below 200 else if big then 60 + below 400 else below 5 in
  let nl = below (if big then 6 else 4) in
  let na = if chance 1 8 then 0 else below (if big then 40 else 9) in
  let fa = 1 + ni + nl in
  let m = ni + nl + na in
  let any () =
    (* prefer small and large numbers alike *)
    if big && chance 1 2 then below 8 else below (2 * m + 2)
  in
  let lits k = List.init k (fun _ -> lit_of_aig fa (any ())) in
  let ext = chance 1 2 in
  let no = below 4 in
  let nb, nc, nj, nf = if ext then (below 3, below 3, below 3, below 3) else (0, 0, 0, 0) in
  let ands =
    List.init na (fun k ->
        let lhs = 2 * (fa + k) in
        let r0 = if big && chance 1 2 then below (min lhs 400) else below lhs in
        let r1 = if chance 1 6 then r0 else below (r0 + 1) in
        (lit_of_aig fa r0, lit_of_aig fa r1))
  in
  let outputs = lits no and bad = lits nb and inv = lits nc and fair = lits nf in
  let justice = List.init nj (fun _ -> lits (below 4)) in
  let latches = lits nl in
  let resets = List.init nl (fun _ -> match below 3 with 0 -> Some false | 1 -> Some true | _ -> None) in
  let with_names = chance 1 2 in
  let nm k = if with_names then gen_names k else [] in
  let syms =
    { Model.sy_in = nm (ni + nl); sy_out = nm no; sy_bad = nm nb; sy_inv = nm nc; sy_just = nm nj; sy_fair = nm nf }
  in
  {
    Model.ap_inputs = n_of_int ni;
    ap_latches = latches;
    ap_resets = resets;
    ap_outputs = outputs;
    ap_bad = bad;
    ap_inv = inv;
    ap_justice = justice;
    ap_fair = fair;
    ap_ands = ands;
    ap_map = Model.default_map (n_of_int fa) (n_of_int na);
    ap_syms = syms;
  }

let gen_cnf (n : int) : unit =
  for k = 0 to n - 1 do
    let nv = if chance 1 10 then 100 + below 900 else below 6 in
    let nc = below 7 in
    let clauses =
      List.init nc (fun _ ->
          let xor = chance 1 4 in
          let len = if nv = 0 then 0 else match below 8 with 0 -> 0 | 1 -> 1 | _ -> 1 + below 5 in
          (xor, List.init len (fun _ -> (chance 1 2, n_of_int (below nv)))))
    in
    Printf.printf "CASE f%d t=cnfwf\nN %d %s\nEND\n" k
      (if chance 1 2 then 4 else 0)
      (hex_of_bytes (Model.print_cnf (n_of_int nv) clauses))
  done

let gen (tier : string) (seed : string) : unit =
  rng_state := Int64.logxor (Int64.of_string seed) 0xa16e5L;
  let n = if tier = "thorough" then 60000 else 4000 in
  for k = 0 to n - 1 do
    (* the first cases are huge ones: the model's variable map is a list, a huge case takes seconds *)
    let p = gen_problem (k < if tier = "thorough" then 12 else 2) in
    if not (Model.wf_b p) then failwith "genaig: generated problem is not well-formed";
    let mask = if chance 3 4 then 4 else 0 in
    Printf.printf "CASE w%d t=aigwf\nA %d %s\nA %d %s\nEND\n" k mask
      (hex_of_bytes (Model.print_aag p))
      mask
      (hex_of_bytes (Model.print_aig p))
  done;
  gen_cnf (if tier = "thorough" then 40000 else 3000)
