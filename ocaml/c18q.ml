(* C18q: the extracted models of the NNF reader (coq/IO/NnfParse.v), of the complete DIMACS
   reader (coq/IO/DimacsSatParse.v: cnf / sat / satx / sate / satex, all options) and of the order /
   clause trees and variable-order preambles (coq/IO/TreeParse.v) against the real parsers.

   [X <fmt> <opts> <hex>] lines: the harness printed what [oxidd_parser::nnf::parse] /
   [dimacs::parse] returned for the bytes under the option mask (a dump of every field: number of
   variables, linear order, order tree, names, gates, root; DIAG; or PANIC); the model reader runs
   on the same bytes.
     - PANIC                                                             -> kind=prop
     - case types nnfwf / satwf / cnftwf (a file written by the MODEL's printers from a generated
       well-formed problem): the real parser rejects it                   -> kind=prop
     - accept/reject decision differs on another input, or a field differs -> kind=corr
   [genq]: writes the well-formed cases.

   Trusted glue: hex conversion, the dump format, the generators. *)
open Conv

let bytes_of_hex = C18p.bytes_of_hex
let hex_of_bytes = C18p.hex_of_bytes
let fmt_alit = C18p.fmt_alit
let starts_with = C18p.starts_with

let rec fmt_tree (t : Model.tree) : string =
  match t with
  | Model.TLeaf n -> string_of_n n
  | Model.TInner l -> "[" ^ String.concat "," (List.map fmt_tree l) ^ "]"

(* the same text as [dump_full] of harness/src/bin/h_circ.rs; the variable set as its public
   accessors show it: order() is None unless its length is the number of variables *)
let dump_full (p : Model.rproblem) : string =
  let vs = p.Model.rp_vars in
  let len = z_of_n vs.Model.vs_len in
  let order =
    if Z.equal (Z.of_int (List.length vs.Model.vs_order)) len then
      "[" ^ String.concat "," (List.map string_of_n vs.Model.vs_order) ^ "]"
    else "none"
  in
  let tree = match vs.Model.vs_tree with Some t -> fmt_tree t | None -> "none" in
  let has_names = vs.Model.vs_names <> [] in
  let names =
    List.concat
      (List.mapi
         (fun i o ->
           match o with
           | Some n when Z.lt (Z.of_int i) len -> [ Printf.sprintf "%d=%s" i (hex_of_bytes n) ]
           | _ -> [])
         vs.Model.vs_names)
  in
  Printf.sprintf "nv=%s | order %s | tree %s | names %b %s | gates %s | root %s" (Z.to_string len) order tree
    has_names (String.concat " " names)
    (String.concat " "
       (List.map
          (fun (k, ins) ->
            Printf.sprintf "%c:%s"
              (match k with Model.DOr -> 'O' | Model.DXor -> 'X' | Model.DAnd -> 'A')
              (String.concat "&" (List.map fmt_alit ins)))
          p.Model.rp_gates))
    (fmt_alit p.Model.rp_root)

let first_diff = C18p.first_diff

(* returns true iff a bad verdict was printed *)
let handle_x c i (opl : string) (res : string) : bool =
  match split_ws opl with
  | [ _; fmt; mask; hexs ] ->
    let typ = match param c "t" with Some t -> t | None -> "" in
    let wf = typ = "nnfwf" || typ = "satwf" || typ = "cnftwf" in
    let mask = int_of_string mask in
    let vo = mask land 1 <> 0 and ct = mask land 2 <> 0 and ca = mask land 4 <> 0 in
    let bytes = bytes_of_hex hexs in
    let key = if fmt = "nnf" then "nnf" else "dim" in
    stat (key ^ "_inputs") 1;
    let bad kind msg =
      verdict_bad c i kind (Printf.sprintf "%s; fmt=%s opts=%d input=%s" msg fmt mask hexs);
      true
    in
    if starts_with "PANIC" res then (
      stat (key ^ "_panics") 1;
      bad "prop" (Printf.sprintf "%s parser panicked: %s" fmt res))
    else begin
      let model = if fmt = "nnf" then Model.parse_nnf vo ca bytes else Model.parse_dimacs vo ct bytes in
      match model with
      | Model.PFuel -> bad "corr" "model reader ran out of fuel (excluded by the theorems C18_nnf_total / C18_sat_total)"
      | Model.PErr ->
        if res = "DIAG" then (
          stat (key ^ "_both_diag") 1;
          if wf then bad "corr" "generated well-formed file rejected by model and implementation" else false)
        else bad "corr" ("model says diagnostic, the implementation accepts: " ^ res)
      | Model.POk p ->
        if res = "DIAG" then
          if wf then bad "prop" "well-formed file (written by the model's printer from a well-formed problem) rejected with a diagnostic"
          else bad "corr" ("model accepts, the implementation returns a diagnostic; model: " ^ dump_full p)
        else if not (starts_with "OK " res) then bad "corr" ("unexpected result " ^ res)
        else begin
          stat (key ^ "_both_ok") 1;
          let d = String.sub res 3 (String.length res - 3) in
          let m = dump_full p in
          (match p.Model.rp_vars.Model.vs_tree with Some _ -> stat (key ^ "_ok_with_order_tree") 1 | None -> ());
          if p.Model.rp_vars.Model.vs_names <> [] then stat (key ^ "_ok_with_names") 1;
          if p.Model.rp_gates <> [] then stat (key ^ "_ok_with_gates") 1;
          if d <> m then bad "corr" ("parsed problem differs from the model's: " ^ first_diff d m)
          else if typ = "nnfwf" then begin
            (* the file must be the model's print of the problem it parses to *)
            stat "nnf_wf_files" 1;
            let printed = if vo then Model.print_nnf_vo p else Model.print_nnf p in
            if not (Model.wf_nnf_b ca p) then bad "corr" "generated NNF problem is not well-formed (wf_nnf_b)"
            else if vo && not (Model.wf_vars_b p.Model.rp_vars) then bad "corr" "generated variable set is not well-formed (wf_vars_b)"
            else if hex_of_bytes printed <> hexs then bad "corr" "file is not the model's print of its parse"
            else false
          end
          else if wf && (vo || ct) && not (Model.wf_vars_b p.Model.rp_vars) then
            bad "corr" "generated variable set is not well-formed (wf_vars_b)"
          else (
            if typ = "satwf" then stat "sat_wf_files" 1;
            if typ = "cnftwf" then stat "cnf_tree_wf_files" 1;
            false)
        end
    end
  | _ -> failwith ("bad X line: " ^ opl)

let handle_y (opl : string) (res : string) : unit =
  let key = match split_ws opl with _ :: "nnf" :: _ -> "nnf" | _ -> "dim" in
  List.iter
    (fun t ->
      match String.split_on_char '=' t with
      | [ "n"; v ] -> stat (key ^ "_mutated_inputs") (int_of_string v)
      | [ "skipped"; v ] -> stat (key ^ "_mutated_skipped") (int_of_string v)
      | _ -> ())
    (split_ws res)

(* ---- generators of well-formed files -------------------------------------- *)

let below = C18p.below
let chance = C18p.chance

let shuffle (l : 'a list) : 'a list =
  let a = Array.of_list l in
  for i = Array.length a - 1 downto 1 do
    let j = below (i + 1) in
    let t = a.(i) in
    a.(i) <- a.(j);
    a.(j) <- t
  done;
  Array.to_list a

(* a tree over the given leaves (in this order); no inner node with exactly one child (the
   reader flattens those), inner nodes without children allowed below the root *)
let rec gen_tree (leaves : int list) (depth : int) : Model.tree =
  match leaves with
  | [ x ] when depth > 0 || chance 2 3 -> Model.TLeaf (n_of_int x)
  | _ ->
    let n = List.length leaves in
    if depth >= 3 || n <= 1 then begin
      let ch = List.map (fun x -> Model.TLeaf (n_of_int x)) leaves in
      (* n = 1 at the root: add an empty inner node so that the node has two children *)
      if n = 1 then Model.TInner (ch @ [ Model.TInner [] ]) else Model.TInner ch
    end
    else begin
      (* split into 2..4 groups; some groups may be empty inner nodes *)
      let k = 2 + below 3 in
      let cuts = List.sort compare (List.init (k - 1) (fun _ -> below (n + 1))) in
      let rec split l cuts pos =
        match cuts with
        | [] -> [ l ]
        | c :: cs ->
          let take = c - pos in
          let rec tk l m acc = if m = 0 then (List.rev acc, l) else match l with x :: r -> tk r (m - 1) (x :: acc) | [] -> (List.rev acc, []) in
          let a, b = tk l take [] in
          a :: split b cs c
      in
      let groups = split leaves cuts 0 in
      let ch =
        List.map
          (fun g -> match g with [] -> Model.TInner [] | [ x ] -> Model.TLeaf (n_of_int x) | _ -> gen_tree g (depth + 1))
          groups
      in
      Model.TInner ch
    end

let name_alphabet = "abcxyzABC019_~[]().,:;<>= \t-+*/\\\"'#"

(* a name a record line reproduces: not empty, no leading / trailing blank, no line break, valid UTF-8 *)
let gen_vname (k : int) : Model.n list =
  let len = 1 + below 6 in
  let raw = List.init len (fun _ -> Char.code name_alphabet.[below (String.length name_alphabet)]) in
  let is_blank c = c = 32 || c = 9 in
  let rec drop = function c :: r when is_blank c -> drop r | l -> l in
  let raw = List.rev (drop (List.rev (drop raw))) in
  let raw = if chance 1 8 then raw @ [ 0xC3; 0xA4 ] else raw in
  (* distinct names: the variable number is part of the name *)
  let tag = List.map Char.code (List.of_seq (String.to_seq (Printf.sprintf "v%d_" k))) in
  List.map n_of_int (tag @ raw)

let strip_names (l : Model.vname option list) : Model.vname option list =
  let rec go = function
    | [] -> []
    | x :: r -> ( match go r with [] -> if x = None then [] else [ x ] | r' -> x :: r')
  in
  go l

(* variable set for a file read back with var_order / clause_tree *)
let gen_varset (nv : int) : Model.varset =
  let plain = { Model.vs_len = n_of_int nv; vs_order = []; vs_tree = None; vs_names = [] } in
  if nv = 0 then plain
  else
    match below 4 with
    | 0 -> plain
    | 1 ->
      (* linear order, one record per variable *)
      let order = shuffle (List.init nv (fun i -> i)) in
      let names = strip_names (List.init nv (fun i -> if chance 1 2 then Some (gen_vname i) else None)) in
      { Model.vs_len = n_of_int nv; vs_order = List.map n_of_int order; vs_tree = None; vs_names = names }
    | _ ->
      let order = shuffle (List.init nv (fun i -> i)) in
      let t = gen_tree order 0 in
      let names =
        if chance 1 2 then [] else strip_names (List.init nv (fun i -> if chance 1 3 then Some (gen_vname i) else None))
      in
      { Model.vs_len = n_of_int nv; vs_order = Model.flatten t; vs_tree = Some t; vs_names = names }

let gen_varset (nv : int) : Model.varset =
  let vs = gen_varset nv in
  if not (Model.wf_vars_b vs) then
    failwith
      (Printf.sprintf "genq: generated variable set is not well-formed: nv=%d order=[%s] names=[%s]" nv
         (String.concat "," (List.map string_of_n vs.Model.vs_order))
         (String.concat ","
            (List.map (function Some n -> hex_of_bytes n | None -> "-") vs.Model.vs_names)));
  vs

let plain_varset nv = { Model.vs_len = n_of_int nv; vs_order = []; vs_tree = None; vs_names = [] }

let gen_nnf (k : int) : unit =
  let nv = if chance 1 12 then 20 + below 60 else below 5 in
  let ng = if chance 1 8 then 0 else below 8 in
  let mask = below 8 in
  let vo = mask land 1 <> 0 and ca = mask land 4 <> 0 in
  (* forward references (no topological order) are legal; a cycle only without check_acyclic *)
  let forward = chance 1 4 in
  let lit g =
    match below 10 with
    | 0 -> Model.ALConst (chance 1 2)
    | 1 | 2 | 3 when g > 0 || (forward && ng > 0) ->
      let h = if forward then below ng else below g in
      Model.ALGate (false, n_of_int h)
    | _ -> if nv = 0 then Model.ALConst (chance 1 2) else Model.ALIn (chance 1 2, n_of_int (below nv))
  in
  let gates =
    List.init ng (fun g ->
        let kind = match below 3 with 0 -> Model.DAnd | 1 -> Model.DOr | _ -> Model.DXor in
        (kind, List.init (1 + below 4) (fun _ -> lit g)))
  in
  let root =
    if ng > 0 && chance 3 4 then Model.ALGate (false, n_of_int (ng - 1))
    else if nv > 0 && chance 2 3 then Model.ALIn (chance 1 2, n_of_int (below nv))
    else Model.ALConst (chance 1 2)
  in
  let vars = if vo then gen_varset nv else plain_varset nv in
  let p = { Model.rp_vars = vars; rp_gates = gates; rp_root = root } in
  (* a cyclic circuit is only written for check_acyclic = false *)
  let ca = ca && Model.acyclic_g gates in
  let mask = (mask land 3) lor if ca then 4 else 0 in
  if not (Model.wf_nnf_b ca p) then failwith "genq: generated NNF problem is not well-formed";
  Printf.printf "CASE n%d t=nnfwf\nX nnf %d %s\nEND\n" k mask
    (hex_of_bytes (if vo then Model.print_nnf_vo p else Model.print_nnf p))

let rec gen_sform (ax : bool) (ae : bool) (nv : int) (depth : int) : Model.sform =
  let leaf () = if nv = 0 then Model.SOp (Model.OpAnd, []) else Model.SLit (chance 1 2, n_of_int (below nv)) in
  if depth >= 3 then leaf ()
  else
    match below 10 with
    | 0 | 1 | 2 | 3 -> leaf ()
    | 4 -> Model.SNot (gen_sform ax ae nv (depth + 1))
    | 5 -> Model.SPar (gen_sform ax ae nv (depth + 1))
    | _ ->
      let ops = [ Model.OpAnd; Model.OpOr ] @ (if ax then [ Model.OpXor ] else []) @ if ae then [ Model.OpEq ] else [] in
      let op = List.nth ops (below (List.length ops)) in
      Model.SOp (op, List.init (below 5) (fun _ -> gen_sform ax ae nv (depth + 1)))

let gen_sat (k : int) : unit =
  let nv = if chance 1 12 then 20 + below 60 else below 5 in
  (* sate is read with eq = false by the code (const SATE): only sat / satx / satex files use '=' *)
  let ax, ae = match below 4 with 0 -> (false, false) | 1 -> (true, false) | 2 -> (true, true) | _ -> (false, false) in
  let f = gen_sform ax ae nv 0 in
  if not (Model.sform_ok_b ax ae (n_of_int nv) f) then failwith "genq: generated formula is not well-formed";
  let mask = below 8 in
  let body = Model.print_sat_body ax ae (n_of_int nv) f in
  let file = if mask land 3 <> 0 then Model.print_dimacs_vo (gen_varset nv) None body else body in
  Printf.printf "CASE s%d t=satwf\nX dimacs %d %s\nEND\n" k mask (hex_of_bytes file)

(* CNF with a clause tree (and possibly a variable order) *)
let gen_cnft (k : int) : unit =
  let nv = if chance 1 10 then 20 + below 60 else below 6 in
  let nc = 1 + below 6 in
  let clauses =
    List.init nc (fun _ ->
        let xor = chance 1 4 in
        let len = if nv = 0 then 0 else match below 8 with 0 -> 0 | 1 -> 1 | _ -> 1 + below 5 in
        (xor, List.init len (fun _ -> (chance 1 2, n_of_int (below nv)))))
  in
  (* leaves: every clause number at least once, some twice *)
  let leaves = shuffle (List.init nc (fun i -> i) @ List.filter (fun _ -> chance 1 4) (List.init nc (fun i -> i))) in
  let t = gen_tree leaves 0 in
  if not (Model.tree_top_ok_b false false t) then failwith "genq: generated clause tree is not well-formed";
  let mask = 2 lor below 8 in
  let body = Model.print_cnf (n_of_int nv) clauses in
  let file = Model.print_dimacs_vo (gen_varset nv) (Some t) body in
  Printf.printf "CASE t%d t=cnftwf\nX dimacs %d %s\nEND\n" k mask (hex_of_bytes file)

let gen (tier : string) (seed : string) : unit =
  C18p.rng_state := Int64.logxor (Int64.of_string seed) 0xc18c1L;
  let n = if tier = "thorough" then 40000 else 3000 in
  for k = 0 to n - 1 do
    gen_nnf k
  done;
  for k = 0 to n - 1 do
    gen_sat k
  done;
  for k = 0 to n - 1 do
    gen_cnft k
  done
