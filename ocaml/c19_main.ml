(* C19 driver: replays the call list of every case on the extracted ledger model
   (coq/Ffi/Ledger.v) and compares
     - validity of every returned handle (INVALID exactly on an invalid operand or out of memory),
     - the value table of every returned handle with the model's (= spec layer DD/Sem.v via
       Ffi/Spec.v) and with the Rust API mirror,
     - handle identity (same table <=> same raw handle among live handles),
     - scalar results (eval, sat_count, node_level, ...) with the model and/or the mirror,
     - the inner-node counts after collections and after the final release of everything with
       the mirror (ownership), the number of live manager threads with the model's manager count.
   kind=prop : the C interface contradicts the property (C vs Rust mirror / ownership / validity);
   kind=corr : model and implementation differ on something else, or the generator produced an
               illegal call. *)
open Conv

exception Bad of string * string (* kind, message *)

let bad kind fmt = Printf.ksprintf (fun s -> raise (Bad (kind, s))) fmt

(* ---- tables ---------------------------------------------------------- *)
let tt_of_hex (nv : int) (h : string) : bool list =
  let x = Z.of_string_base 16 h in
  List.init (1 lsl nv) (fun p -> Z.testbit x p)

let hex_of_tt (t : bool list) : string =
  let x = ref Z.zero in
  List.iteri (fun p b -> if b then x := Z.logor !x (Z.shift_left Z.one p)) t;
  Z.format "%x" !x

let slot (t : string) : Model.nat = nat_of_int (int_of_string (String.sub t 1 (String.length t - 1)))
let islot (t : string) : int = int_of_string (String.sub t 1 (String.length t - 1))
let nat s = nat_of_int (int_of_string s)

let split_on (sep : string) (s : string) : string list =
  (* split on a multi-character separator *)
  let n = String.length s and m = String.length sep in
  let rec go start i acc =
    if i + m > n then List.rev (String.sub s start (n - start) :: acc)
    else if String.sub s i m = sep then go (i + m) (i + m) (String.sub s start (i - start) :: acc)
    else go start (i + 1) acc
  in
  go 0 0 []

let strip s = String.trim s

(* "C <obs> || R <obs>" -> (c, r) without the leading letters *)
let split_cr (res : string) : string * string =
  match split_on " || " res with
  | [ c; r ] ->
    let c = strip c and r = strip r in
    let drop p s =
      if String.length s >= 2 && String.sub s 0 2 = p then String.sub s 2 (String.length s - 2) else s
    in
    (drop "C " c, drop "R " r)
  | _ -> bad "corr" "unparsable result [%s]" res

let kv (s : string) (key : string) : string =
  match List.find_map (fun t ->
      let p = key ^ "=" in
      let pl = String.length p in
      if String.length t >= pl && String.sub t 0 pl = p then Some (String.sub t pl (String.length t - pl))
      else None) (split_ws s)
  with Some v -> v | None -> bad "corr" "missing %s in [%s]" key s

let bop_of = function
  | "AND" -> Model.OAnd | "OR" -> Model.OOr | "XOR" -> Model.OXor | "EQUIV" -> Model.OEquiv
  | "NAND" -> Model.ONand | "NOR" -> Model.ONor | "IMP" -> Model.OImp | "IMPS" -> Model.OImpStrict
  | o -> bad "corr" "operator %s" o

(* ---- per-case state --------------------------------------------------- *)
type cs = {
  mutable st : Model.state;
  ids : (int, string) Hashtbl.t;       (* function slot -> raw handle bits *)
  mutable oom_seen : bool;
  mutable nonterm : int;
  small : bool;                        (* manager capacity too small for the work *)
}

let nv cs = int_of_nat cs.st.Model.st_nv

let do_step cs (c : Model.call) : Model.ret =
  match Model.step cs.st c with
  | Model.Done (st', r) -> cs.st <- st'; r
  | Model.UB -> bad "corr" "model: the Rust side of the model is stuck (UB) on a legal call"
  | Model.Illegal -> bad "corr" "model: call is not documented-legal (generator / client ledger out of sync)"

let peek cs (c : Model.call) : Model.ret option =
  match Model.step cs.st c with Model.Done (_, r) -> Some r | _ -> None

let model_handle cs (s : string) : Model.handle =
  match Model.lookup (slot s) cs.st.Model.st_funs with
  | Some h -> h
  | None -> bad "corr" "model: function slot %s is not owned by the client" s

(* observation of a handle on the C side: "inv" | "<tt>/<id>" *)
let parse_c_handle cs (o : string) : (bool list * string) option =
  let o = List.hd (split_ws o) in
  if o = "inv" then None
  else
    match String.split_on_char '/' o with
    | [ t; id ] -> Some (tt_of_hex (nv cs) t, id)
    | _ -> bad "corr" "handle observation [%s]" o

let parse_r_handle cs (o : string) : bool list option =
  let o = List.hd (split_ws o) in
  if o = "inv" || o = "skip" || o = "oom" || o = "none" then None else Some (tt_of_hex (nv cs) o)

(* compare one returned handle: model [mh], C observation, Rust mirror observation *)
let check_handle cs (what : string) (dst : string) (mh : Model.handle) (co : string) (ro : string) : unit =
  let c = parse_c_handle cs co in
  (match mh, c with
   | Model.HInv, Some _ ->
     bad "prop" "%s: the C call returned a valid handle where INVALID is required (invalid operand / no result)" what
   | Model.HVal _, None -> bad "prop" "%s: the C call returned INVALID although all operands are valid and memory was available (model: valid)" what
   | Model.HInv, None -> ()
   | Model.HVal mt, Some (ct, id) ->
     let r = parse_r_handle cs ro in
     (match r with
      | Some rt when rt <> ct ->
        bad "prop" "%s: C result %s differs from the Rust API result %s" what (hex_of_tt ct) (hex_of_tt rt)
      | _ -> ());
     if ct <> mt then
       bad "corr" "%s: C result %s (Rust mirror agrees) differs from the spec-layer result %s" what (hex_of_tt ct) (hex_of_tt mt);
     (* identity: among live handles, same table <=> same raw bits *)
     List.iter (fun (s, h) ->
         let si = int_of_nat s in
         if si <> islot dst then
           match h, Hashtbl.find_opt cs.ids si with
           | Model.HVal t, Some i ->
             if (t = mt) <> (i = id) then
               bad "prop" "%s: handle identity: slot f%d table %s raw %s vs new table %s raw %s" what si (hex_of_tt t) i (hex_of_tt mt) id
           | _ -> ())
       cs.st.Model.st_funs;
     Hashtbl.replace cs.ids (islot dst) id)

(* run a call that has an [oom] label: the label is read off the implementation's answer *)
let step_oom cs (mk : bool -> Model.call) (c_invalid : bool) : Model.ret =
  match peek cs (mk false) with
  | Some (Model.RetH (Model.HVal _)) when c_invalid ->
    cs.oom_seen <- true;
    stat "oom_results" 1;
    do_step cs (mk true)
  | _ -> do_step cs (mk false)

let ret_handle = function Model.RetH h -> h | _ -> bad "corr" "model: handle expected"

let c_is_inv (co : string) = List.hd (split_ws co) = "inv"

let operands_invalid cs (l : string list) =
  List.exists (fun s -> match model_handle cs s with Model.HInv -> true | _ -> false) l

let quant_of = function
  | "FORALL" | "AFA" -> Model.QForall
  | "EXISTS" | "AEX" -> Model.QExists
  | _ -> Model.QUnique

let parse_cube (s : string) : bool option list option =
  (* "cube:1-0" | "none" *)
  if String.length s >= 5 && String.sub s 0 5 = "cube:" then
    Some (List.init (String.length s - 5) (fun i ->
        match s.[i + 5] with '1' -> Some true | '0' -> Some false | _ -> None))
  else None

let var_max = "4294967295"

let exec cs (toks : string list) (res : string) : unit =
  let t i = List.nth toks i in
  let op = t 0 in
  let co, ro = split_cr (List.hd (split_on " ;; " res)) in
  let fun_result what dst mk srcs =
    if operands_invalid cs srcs then stat "invalid_operand_calls" 1;
    let r = step_oom cs mk (c_is_inv co) in
    check_handle cs what dst (ret_handle r) co ro
  in
  match op with
  | "MNEW" ->
    ignore (do_step cs (Model.CMgrNew (slot (t 1))));
    if co <> "ok" then bad "prop" "manager_new returned NULL"
  | "MREF" ->
    ignore (do_step cs (Model.CMgrRef (slot (t 1), slot (t 2))));
    if kv co "same" <> "1" then bad "prop" "manager_ref did not return its argument"
  | "MUNREF" -> ignore (do_step cs (Model.CMgrUnref (slot (t 1))))
  | "CONT" ->
    ignore (do_step cs (Model.CContaining (slot (t 1), slot (t 2))));
    if kv co "same" <> "1" then bad "prop" "containing_manager returned a different manager"
  | "ADDVARS" ->
    let k = int_of_string (t 2) in
    (match do_step cs (Model.CAddVars (slot (t 1), nat_of_int k)) with
     | Model.RetRange (a, b) ->
       let want = Printf.sprintf "%d %d" (int_of_nat a) (int_of_nat b) in
       if co <> want then bad "prop" "add_vars returned [%s], expected [%s]" co want;
       if ro <> want then bad "corr" "Rust add_vars returned [%s], model [%s]" ro want
     | _ -> bad "corr" "model: range expected")
  | "ADDNAMED" ->
    (* label: the range the Rust API reports as added *)
    (match split_ws ro, split_ws co with
     | [ ra; rb; rp ], [ ca; cb; cp ] ->
       let k = int_of_string rb - int_of_string ra in
       let present = if rp = "none" then None else Some (n_of_string rp) in
       let (ea, eb), ep = Model.enc_add_named ((n_of_string ra, n_of_string rb), present) in
       if (ca, cb, cp) <> (string_of_n ea, string_of_n eb, string_of_n ep) then
         bad "prop" "add_named_vars: C result [%s] is not the encoding of the Rust result [%s]" co ro;
       (match do_step cs (Model.CAddVars (slot (t 1), nat_of_int k)) with
        | Model.RetRange (a, b) ->
          if int_of_nat a <> int_of_string ra || int_of_nat b <> int_of_string rb then
            bad "corr" "add_named_vars: range [%s] vs model %d..%d" ro (int_of_nat a) (int_of_nat b)
        | _ -> ())
     | _ -> bad "corr" "unparsable ADDNAMED result")
  | "SETNAME" ->
    ignore (do_step cs (Model.CMgrOther (slot (t 1))));
    let r = if ro = "none" then None else Some (n_of_string ro) in
    if co <> string_of_n (Model.enc_set_var_name r) then
      bad "prop" "set_var_name: C result [%s] is not the encoding of the Rust result [%s]" co ro
  | "N2V" ->
    ignore (do_step cs (Model.CMgrOther (slot (t 1))));
    let r = if ro = "none" then None else Some (n_of_string ro) in
    if co <> string_of_n (Model.enc_name_to_var (t 2 = "-") r) then
      bad "prop" "name_to_var: C result [%s] is not the encoding of the Rust result [%s]" co ro
  | "NAME" ->
    ignore (do_step cs (Model.CMgrOther (slot (t 1))));
    (* "null len=0 cb=0:" | "s:<name> len=<n> cb=<n>:<name>"  vs  "null" | "s:<name>" *)
    let c0 = List.hd (split_ws co) in
    if c0 <> ro then bad "prop" "var_name: C [%s] vs Rust [%s]" co ro;
    let name = if ro = "null" then "" else String.sub ro 2 (String.length ro - 2) in
    let want = Printf.sprintf "%s len=%d cb=%d:%s" ro (String.length name) (String.length name) name in
    if strip co <> strip want then bad "prop" "var_name / with_var_name: C [%s], expected [%s]" co want
  | "COUNTS" ->
    ignore (do_step cs (Model.CMgrOther (slot (t 1))));
    (* without an explicit collection the node counts of a manager that ran out of memory
       (and collected on its own) need not equal the mirror's *)
    let norm s = if cs.small then String.concat " " (List.filter (fun t -> not (String.length t > 5 && (String.sub t 0 6 = "inner=" || String.sub t 0 6 = "approx"))) (split_ws s)) else s in
    if norm co <> norm ro then bad "prop" "manager queries: C [%s] vs Rust [%s]" co ro;
    if int_of_string (kv co "vars") <> nv cs then bad "corr" "num_vars %s vs model %d" (kv co "vars") (nv cs);
    let l2v = String.concat "" (List.map (fun v -> string_of_int (int_of_nat v) ^ ",") cs.st.Model.st_l2v) in
    let got = try kv co "l2v" with Bad _ -> "" in
    if got <> l2v then bad "corr" "level order [%s] vs model [%s]" got l2v
  | "GC" ->
    ignore (do_step cs (Model.CMgrOther (slot (t 1))));
    if kv co "inner" <> kv ro "inner" then
      bad "prop" "after gc the C manager holds %s inner nodes, the Rust mirror with the same live functions %s" (kv co "inner") (kv ro "inner");
    if (not cs.small) && (not cs.oom_seen) && kv co "collected" <> kv ro "collected" then
      bad "prop" "gc collected %s nodes, the Rust mirror %s" (kv co "collected") (kv ro "collected")
  | "ORDER" ->
    ignore (do_step cs (Model.CSetOrder (slot (t 1), List.map nat (List.tl (List.tl toks)))))
  | "POOL" ->
    ignore (do_step cs (Model.CMgrOther (slot (t 1))));
    if co <> ro then bad "prop" "run_in_worker_pool returned %s, expected %s" co ro
  | "EXPORT" | "DOT" ->
    let srcs = if op = "EXPORT" then t 7 else t 3 in
    let fs = if srcs = "-" then [] else String.split_on_char ',' srcs in
    (match do_step cs (Model.CExport (slot (t 1), List.map slot fs)) with
     | Model.RetBool allvalid ->
       if op = "EXPORT" then begin
         let strict = t 5 = "1" in
         if kv ro "same" <> "1" then bad "prop" "export_dddmp: file differs from the Rust API export of the same (valid) functions";
         if kv ro "ok" <> "1" && not strict then bad "corr" "Rust export failed";
         if (not strict) && (kv co "ok" = "1") <> allvalid then
           bad "prop" "export_dddmp: returned %s, all functions valid = %b" (kv co "ok") allvalid;
         if strict && kv co "ok" <> kv ro "ok" && allvalid then
           bad "prop" "export_dddmp (strict): C ok=%s Rust ok=%s" (kv co "ok") (kv ro "ok")
       end else begin
         if kv co "ok" <> "1" then bad "prop" "dump_all_dot failed: %s" co;
         (* the dump lists every stored node, garbage included: after an out-of-memory situation
            the two managers need not store the same garbage *)
         let shape s = if cs.small then ("", "", kv s "labels") else (kv s "lines", kv s "edges", kv s "labels") in
         if shape co <> shape ro then bad "prop" "dump_all_dot: C [%s] vs Rust [%s]" co ro
       end
     | _ -> bad "corr" "model: bool expected")
  | "RT" ->
    let ds = String.split_on_char ',' (t 4) and srcs = String.split_on_char ',' (t 5) in
    let parts = split_on " ;; " res in
    let head = List.hd parts in
    let hc, hr = split_cr head in
    let imported = (try kv hr "import" = "1" with Bad _ -> false) in
    (match do_step cs (Model.CRoundTrip (slot (t 1), List.map slot ds, List.map slot srcs, imported)) with
     | Model.RetBool b ->
       let allvalid = kv hr "allvalid" = "1" in
       if kv hr "same" <> "1" then bad "prop" "export_dddmp: file differs from the Rust API export";
       if (kv hc "ok" = "1") <> allvalid then bad "prop" "export_dddmp returned %s, all functions valid = %b" (kv hc "ok") allvalid;
       (match (try Some (kv hr "hdr") with Bad _ -> None) with
        | Some "0" -> bad "prop" "dddmp header queries differ from the header the Rust API loads: %s" hr
        | _ -> ());
       if allvalid && not imported then begin
         (* only out of memory may make the import fail *)
         cs.oom_seen <- true;
         stat "oom_results" 1
       end;
       if b then begin
         if List.length parts <> 1 + List.length ds then bad "prop" "import_dddmp: %d roots for %d functions" (List.length parts - 1) (List.length ds);
         List.iteri (fun i d ->
             let pc, pr = split_cr (List.nth parts (i + 1)) in
             check_handle cs "import_dddmp" d (model_handle cs d) pc pr)
           ds
       end
     | _ -> bad "corr" "model: bool expected")
  | "INV" -> ignore (do_step cs (Model.CInvalid (slot (t 1))))
  | "REF" ->
    let r = do_step cs (Model.CRef (slot (t 1), slot (t 2))) in
    if kv res "same" <> "1" then bad "prop" "ref did not return its argument";
    (match ret_handle r, Hashtbl.find_opt cs.ids (islot (t 2)) with
     | Model.HVal _, Some i -> Hashtbl.replace cs.ids (islot (t 1)) i
     | _ -> ());
    (* the table is re-read through eval *)
    let c = parse_c_handle cs co in
    (match ret_handle r, c with
     | Model.HVal mt, Some (ct, _) -> if mt <> ct then bad "prop" "ref: handle evaluates to %s, expected %s" (hex_of_tt ct) (hex_of_tt mt)
     | Model.HInv, None -> ()
     | _ -> bad "prop" "ref: validity changed")
  | "UNREF" ->
    ignore (do_step cs (Model.CUnref (slot (t 1))));
    Hashtbl.remove cs.ids (islot (t 1))
  | "TT" ->
    (match model_handle cs (t 1), parse_c_handle cs co with
     | Model.HVal mt, Some (ct, id) ->
       if mt <> ct then
         bad "prop" "live handle f%d evaluates to %s, expected %s (its nodes were released or overwritten)" (islot (t 1)) (hex_of_tt ct) (hex_of_tt mt);
       (match parse_r_handle cs ro with
        | Some rt when rt <> ct -> bad "prop" "live handle: C %s vs Rust %s" (hex_of_tt ct) (hex_of_tt rt)
        | _ -> ());
       (match Hashtbl.find_opt cs.ids (islot (t 1)) with
        | Some i when i <> id -> bad "corr" "raw handle changed"
        | _ -> ())
     | Model.HInv, None -> ()
     | _ -> bad "prop" "validity of a stored handle changed")
  | "FALSE" | "TRUE" | "VAR" | "NVAR" | "SINGLETON" | "EMPTY" | "BASE" ->
    let v () = nat (t 3) in
    let o = match op with
      | "FALSE" -> Model.O0False | "TRUE" -> Model.O0True
      | "VAR" -> Model.O0Var (v ()) | "NVAR" -> Model.O0NotVar (v ())
      | "SINGLETON" -> Model.O0Singleton (v ()) | "EMPTY" -> Model.O0Empty | _ -> Model.O0Base in
    fun_result op (t 1) (fun oom -> Model.COp0 (o, slot (t 1), slot (t 2), oom)) []
  | "NOT" | "SUBSET0" | "SUBSET1" | "CHANGE" | "PICKDD" ->
    let o = match op with
      | "NOT" -> Model.O1Not
      | "SUBSET0" -> Model.O1Subset0 (nat (t 3))
      | "SUBSET1" -> Model.O1Subset1 (nat (t 3))
      | "CHANGE" -> Model.O1Change (nat (t 3))
      | _ ->
        (* the label is the cube the implementation picked *)
        (* out of memory on the C side: the label is what the Rust mirror picked *)
        let res_t = match parse_c_handle cs co, parse_r_handle cs ro with
          | Some (ct, _), _ -> ct | None, Some rt -> rt | None, None -> tt_of_hex (nv cs) "0" in
        (match model_handle cs (t 2), parse_c_handle cs co with
         | Model.HVal ft, Some (ct, _) ->
           if not (Model.pick_ok cs.st.Model.st_nv ft ct) then
             bad "prop" "pick_cube_dd returned %s which is not a cube implying %s" (hex_of_tt ct) (hex_of_tt ft)
         | _ -> ());
        Model.O1PickDD res_t
    in
    fun_result op (t 1) (fun oom -> Model.COp1 (o, slot (t 1), slot (t 2), oom)) [ t 2 ]
  | "AND" | "OR" | "NAND" | "NOR" | "XOR" | "EQUIV" | "IMP" | "IMPS" | "RESTRICT" | "FORALL" | "EXISTS" | "UNIQUE"
  | "UNION" | "INTSEC" | "DIFF" | "PICKSET" ->
    let o = match op with
      | "RESTRICT" -> Model.O2Restrict
      | "FORALL" | "EXISTS" | "UNIQUE" -> Model.O2Quant (quant_of op)
      | "UNION" -> Model.O2Union | "INTSEC" -> Model.O2Intsec | "DIFF" -> Model.O2Diff
      | "PICKSET" ->
        (* out of memory on the C side: the label is what the Rust mirror picked *)
        let res_t = match parse_c_handle cs co, parse_r_handle cs ro with
          | Some (ct, _), _ -> ct | None, Some rt -> rt | None, None -> tt_of_hex (nv cs) "0" in
        (match model_handle cs (t 2), parse_c_handle cs co with
         | Model.HVal ft, Some (ct, _) ->
           if not (Model.pick_ok cs.st.Model.st_nv ft ct) then
             bad "prop" "pick_cube_dd_set returned %s which is not a cube implying %s" (hex_of_tt ct) (hex_of_tt ft)
         | _ -> ());
        Model.O2PickSet res_t
      | _ -> Model.O2Bin (bop_of op)
    in
    fun_result op (t 1) (fun oom -> Model.COp2 (o, slot (t 1), slot (t 2), slot (t 3), oom)) [ t 2; t 3 ]
  | "ITE" ->
    fun_result op (t 1) (fun oom -> Model.COp3 (Model.O3Ite, slot (t 1), slot (t 2), slot (t 3), slot (t 4), oom)) [ t 2; t 3; t 4 ]
  | "AFA" | "AEX" | "AUQ" ->
    let o = Model.O3ApplyQuant (quant_of op, bop_of (t 1)) in
    fun_result (op ^ " " ^ t 1) (t 2)
      (fun oom -> Model.COp3 (o, slot (t 2), slot (t 3), slot (t 4), slot (t 5), oom)) [ t 3; t 4; t 5 ]
  | "COFS" ->
    if operands_invalid cs [ t 3 ] then stat "invalid_operand_calls" 1;
    (match do_step cs (Model.CCofactors (slot (t 1), slot (t 2), slot (t 3))), split_on " ;; " res with
     | Model.RetHH (h1, h2), [ p1; p2 ] ->
       let c1, r1 = split_cr p1 and c2, r2 = split_cr p2 in
       check_handle cs "cofactors.first" (t 1) h1 c1 r1;
       check_handle cs "cofactors.second" (t 2) h2 c2 r2
     | _ -> bad "corr" "COFS: unparsable")
  | "COFT" | "COFF" ->
    if operands_invalid cs [ t 2 ] then stat "invalid_operand_calls" 1;
    let r = do_step cs (Model.CCofactor (op = "COFT", slot (t 1), slot (t 2))) in
    check_handle cs op (t 1) (ret_handle r) co ro
  | "MKNODE" ->
    fun_result op (t 1) (fun oom -> Model.CMakeNode (slot (t 1), slot (t 2), slot (t 3), slot (t 4), oom)) [ t 2; t 3; t 4 ]
  | "SNEW" ->
    ignore (do_step cs (Model.CSubstNew (slot (t 1))));
    if co <> "ok" then bad "prop" "substitution_new returned NULL"
  | "SADD" -> ignore (do_step cs (Model.CSubstAdd (slot (t 1), nat (t 2), slot (t 3))))
  | "SFREE" -> ignore (do_step cs (Model.CSubstFree (slot (t 1))))
  | "SUBST" ->
    let s = if t 3 = "null" then None else Some (slot (t 3)) in
    fun_result op (t 1) (fun oom -> Model.CSubstitute (slot (t 1), slot (t 2), s, oom)) [ t 2 ]
  | "NC" ->
    ignore (do_step cs (Model.CQuery (Model.QNodeCount, slot (t 1))));
    if co <> ro then bad "prop" "node_count: C %s vs Rust %s" co ro
  | "SAT" ->
    let q what = match do_step cs (Model.CQuery (what, slot (t 1))) with
      | Model.RetBool b -> if b then "1" else "0" | _ -> "?" in
    let s = q Model.QSatisfiable and v = q Model.QValid in
    if co <> ro then bad "prop" "satisfiable/valid: C [%s] vs Rust [%s]" co ro;
    if kv co "sat" <> s || kv co "valid" <> v then bad "corr" "satisfiable/valid: [%s] vs model sat=%s valid=%s" co s v
  | "SATCOUNT" ->
    (match do_step cs (Model.CQuery (Model.QSatCount (nat (t 2)), slot (t 1))) with
     | Model.RetN x ->
       let c0 = List.hd (split_ws co) and r0 = List.hd (split_ws ro) in
       if c0 <> r0 || kv co "f64" <> kv ro "f64" then bad "prop" "sat_count: C [%s] vs Rust [%s]" co ro;
       if kv co "eq" <> "1" || kv co "cmp" <> "0" then bad "prop" "natural clone/eq/cmp: [%s]" co;
       if c0 <> string_of_n x then bad "corr" "sat_count: %s vs model %s" c0 (string_of_n x);
       (* the floating point count of these small functions is exact *)
       let want = Printf.sprintf "%016Lx" (Int64.bits_of_float (Z.to_float (z_of_n x))) in
       if kv co "f64" <> want then
         bad "prop" "sat_count_double returned bits %s, the exact count is %s (bits %s)" (kv co "f64") (string_of_n x) want
     | _ -> bad "corr" "model: number expected")
  | "PICK" ->
    let c0 = List.hd (split_ws co) and r0 = List.hd (split_ws ro) in
    let cube = parse_cube c0 in
    (match model_handle cs (t 1) with
     | Model.HVal ft ->
       if not (Model.pick_vec_ok cs.st.Model.st_nv ft cube) then
         bad "prop" "pick_cube returned [%s] for the function %s" co (hex_of_tt ft)
     | _ -> ());
    ignore (do_step cs (Model.CQuery (Model.QPickCube cube, slot (t 1))));
    if c0 <> r0 then bad "prop" "pick_cube: C [%s] vs Rust [%s]" co ro;
    if cube = None && co <> "none len=0" then bad "prop" "pick_cube: empty assignment expected, got [%s]" co
  | "EVAL" ->
    let args = if t 2 = "-" then [] else
        List.map (fun p -> match String.split_on_char '=' p with
            | [ v; b ] -> (nat v, b = "1") | _ -> bad "corr" "eval args") (String.split_on_char ',' (t 2)) in
    (match do_step cs (Model.CQuery (Model.QEval args, slot (t 1))) with
     | Model.RetBool b ->
       if co <> ro then bad "prop" "eval: C %s vs Rust %s" co ro;
       if co <> (if b then "1" else "0") then bad "corr" "eval: %s vs model %b" co b
     | _ -> bad "corr" "model: bool expected")
  | "LEVEL" ->
    let q what = match do_step cs (Model.CQuery (what, slot (t 1))) with
      | Model.RetOptNat x -> string_of_n (Model.enc_opt_level x) | _ -> "?" in
    let l = q Model.QNodeLevel in
    let v = q Model.QNodeVar in
    let want = l ^ " " ^ v in
    (match model_handle cs (t 1) with
     | Model.HVal _ ->
       let renc = String.concat " " (List.map (fun x -> if x = "none" then var_max else x) (split_ws ro)) in
       if co <> renc then bad "prop" "node_level/node_var: C [%s] vs Rust [%s]" co ro
     | Model.HInv -> ());
    if co <> want then bad "corr" "node_level/node_var: C [%s] vs model [%s]" co want
  | "FINAL" ->
    let alive_before = int_of_nat cs.st.Model.st_rs.Model.r_mrc > 0 in
    (* release everything the client still owns *)
    List.iter (fun (s, _) -> ignore (do_step cs (Model.CSubstFree s))) cs.st.Model.st_subs;
    List.iter (fun (s, _) -> ignore (do_step cs (Model.CUnref s))) cs.st.Model.st_funs;
    List.iter (fun m -> ignore (do_step cs (Model.CMgrUnref m))) cs.st.Model.st_mgrs;
    if int_of_nat cs.st.Model.st_rs.Model.r_mrc <> 0 || cs.st.Model.st_rs.Model.r_funs <> [] then
      bad "corr" "model: references left after releasing the whole ledger";
    let c0 = List.hd (split_ws co) in
    if (c0 = "nomanager") = alive_before then
      bad "corr" "client still owned something: %b, harness says [%s]" alive_before c0;
    let threads = List.map int_of_string (String.split_on_char ',' (kv co "threads")) in
    let want = [ (if alive_before then 2 else 1); (if alive_before then 2 else 1); 0 ] in
    if threads <> want then
      bad "prop" "manager lifetime: collector threads before/at/after the final unref = [%s], expected [%s] (the manager must live exactly as long as the client holds a reference)"
        (kv co "threads") (String.concat "," (List.map string_of_int want));
    if alive_before then begin
      if kv co "inner" <> kv ro "inner" then
        bad "prop" "after releasing every handle and a collection the C manager holds %s inner nodes, the Rust mirror %s" (kv co "inner") (kv ro "inner");
      let own = match cs.st.Model.st_kind with Model.FZ -> int_of_string (kv co "vars") | _ -> 0 in
      if int_of_string (kv co "inner") <> own then
        bad "prop" "after releasing every handle and a collection the manager still holds %s inner nodes (its own: %d)" (kv co "inner") own
    end
  | o -> bad "corr" "unknown op %s" o

let () =
  iter_cases stdin (fun c ->
      let kind = match param c "kind" with
        | Some "bdd" -> Model.FB | Some "bcdd" -> Model.FC | Some "zbdd" -> Model.FZ
        | _ -> failwith "kind" in
      (* one independent client (model state) per "@k" prefix; calls of different clients never
         share a handle, so the model of the whole case is the product of the per-manager models *)
      let clients : (int, cs) Hashtbl.t = Hashtbl.create 4 in
      let client k =
        match Hashtbl.find_opt clients k with
        | Some x -> x
        | None ->
          let x = { st = Model.init kind; ids = Hashtbl.create 64; oom_seen = false; nonterm = 0;
                    small = param_int c "cap" 65536 < 1000 } in
          Hashtbl.replace clients k x; x in
      let badv = ref false in
      List.iteri
        (fun i l ->
          if not !badv then
            if l = "HANG" then (badv := true; verdict_bad c i "prop" "implementation did not terminate (watchdog)")
            else if String.length l >= 5 && (String.sub l 0 5 = "PANIC" || String.sub l 0 5 = "CRASH") then (
              badv := true;
              verdict_bad c i "prop" ("the process died / panicked inside a documented-legal call sequence: " ^ l))
            else
              let ops, res = split_arrow l in
              let toks = split_ws ops in
              let inst, toks = match toks with
                | t0 :: rest when String.length t0 > 1 && t0.[0] = '@' ->
                  (int_of_string (String.sub t0 1 (String.length t0 - 1)), rest)
                | _ -> (0, toks) in
              let cs = client inst in
              if inst > 0 then stat "calls_on_second_manager" 1;
              if res = "SKIP" then stat "skipped_calls" 1
              else begin
                stat ("op_" ^ List.hd toks) 1;
                try exec cs toks res
                with
                | Bad (kind, msg) ->
                  badv := true;
                  verdict_bad c i kind (Printf.sprintf "prop=C19 %s @ [%s]" msg ops)
                | Failure m | Invalid_argument m ->
                  badv := true;
                  verdict_bad c i "corr" (Printf.sprintf "prop=C19 driver exception %s @ [%s -> %s]" m ops res)
                | Not_found ->
                  badv := true;
                  verdict_bad c i "corr" (Printf.sprintf "prop=C19 driver exception Not_found @ [%s -> %s]" ops res)
              end)
        c.lines;
      stat "cases" 1;
      stat "steps" (List.length c.lines);
      if Hashtbl.fold (fun _ x acc -> acc || x.oom_seen) clients false then stat "cases_with_oom" 1;
      if Hashtbl.length clients > 1 then stat "cases_with_several_managers" 1;
      if not !badv then verdict_ok c);
  dump_stats ()
