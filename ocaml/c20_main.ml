(* C20 driver: ties the configuration-generic apply model (coq/DD/ConfigApply.v) to the code.
   Reads a trace of harness/src/bin/h_dd.rs (kind=bdd, header snap=each) produced by ONE build
   configuration of the oxidd crate with some worker count, replays every API call on the extracted
   [Model.mstep] under three model configurations
     A  store = fresh_id (index-like), operand order constant, no cache,           sequential
     B  store = slab addresses,        operand order by id,    direct-mapped cache, every join to
        depth 3 in swapped order with stale cache views
     C  store = odd ids,               reversed order,         unbounded cache,     mixed orders
   and compares, at every snapshot, the observation of the real manager (handle slots, value table
   of every handle computed by the extracted [sem_edge] on the lifted table, node count by the
   extracted [count_reach], variable order) with the observation of each model state; NC results
   are compared with the model's node count.  Also evaluates the renaming theorems' definitions on
   the real table: [rename_snap (addr_of 4096 4)] must leave observation, wf_b, rc_exact_b alone.
   C20x: traces of kind=bcdd / kind=zbdd are replayed the same way on the extracted [Model.cmstep]
   (coq/DD/ConfigBcdd.v) / [Model.zmstep] (coq/DD/ConfigZbdd.v; start table = the tautology chain
   built by the extracted [zadd_vars]) under three model configurations each (store / edge order /
   cache / schedule all different); additionally [bcok_b] / [zbdd_ok_b] + [zchain_ok_b] (the
   hypotheses of C20_bcdd_run_ops_observe / C20_zbdd_run_ops_observe) are evaluated on every model table.
     kind=prop : the real run differs from the (configuration independent) model observation
     kind=corr : the model configurations disagree among themselves / the model fails / trace unusable *)
open Conv
open Dd_types

let bop_of = function
  | "AND" -> Some Model.OAnd | "OR" -> Some Model.OOr | "XOR" -> Some Model.OXor
  | "EQUIV" -> Some Model.OEquiv | "NAND" -> Some Model.ONand | "NOR" -> Some Model.ONor
  | "IMP" -> Some Model.OImp | "IMPS" -> Some Model.OImpStrict | _ -> None

let zref = function Model.RN p -> z_of_pos p | Model.RT t -> Z.neg (Z.succ (z_of_n t))

(* one model configuration, cache type hidden in the closure *)
type cfg = { name : string; step : Model.mop -> bool; snap : unit -> Model.snap option }

let make_cfg (type c) name alloc gt
    (cget : c -> Model.n -> Model.ref list -> Model.ref option)
    (cadd : c -> Model.n -> Model.ref list -> Model.ref -> c)
    (sch : Model.nat -> Model.sched) (c0 : c) (s0 : Model.snap) : cfg =
  let st = ref (Some { Model.m_snap = s0; Model.m_cache = c0; Model.m_step = Model.O }) in
  { name;
    step = (fun o ->
        match !st with
        | None -> false
        | Some x -> st := Model.mstep alloc gt cget cadd sch x o; !st <> None);
    snap = (fun () -> match !st with Some x -> Some x.Model.m_snap | None -> None) }

let hash_key (k : Model.dm_key) : Model.n =
  let h = ref (Z.to_int (z_of_n k.Model.k_op)) in
  List.iter (fun (e : Model.edge) -> h := (!h * 31 + Z.to_int (Z.rem (zref e.Model.eref) (Z.of_int 1000003))) land 0xFFFFFF)
    k.Model.k_eops;
  n_of_int !h

let model_cfgs (n : int) : cfg list =
  let ids = List.init n nat in
  let s0 = { Model.s_kind = Model.KBdd; Model.s_nodes = Model.PositiveMap.empty;
             Model.s_terms = [ (n_of_int 0, n_of_int 0); (n_of_int 1, n_of_int 1) ];
             Model.s_v2l = ids; Model.s_l2v = ids; Model.s_handles = [] } in
  let par (f : int -> bool * bool) d = Model.sched_depth (nat d) (fun path -> f (List.length path)) [] in
  [ make_cfg "A" Model.fresh_id (fun _ _ -> false) Model.nc_get Model.nc_add (fun _ -> Model.SSeq) () s0;
    make_cfg "B" (fun s -> Model.addr_of (pos_of_z (Z.of_int 4096)) (nat 4) (Model.fresh_id s))
      (fun a b -> Z.gt (zref a) (zref b))
      (Model.dmr_get hash_key) (Model.dmr_add hash_key) (fun _ -> par (fun _ -> (true, true)) 3)
      (Model.dm_init (pos_of_z (Z.of_int 4)) (nat 8)) s0;
    make_cfg "C" (fun s -> Model.addr_of Model.XH (nat 1) (Model.fresh_id s))
      (fun a b -> Z.lt (zref a) (zref b))
      Model.ac_get Model.ac_add
      (fun k -> let k = int_of_nat k in par (fun len -> ((len + k) mod 2 = 0, k mod 2 = 1)) 2)
      [] s0 ]

(* ---- C20x: complement-edge and zero-suppressed kinds ------------------------------------- *)
let make_cfg_c (type c) name alloc lt
    (cget : c -> Model.n -> Model.edge list -> Model.edge option)
    (cadd : c -> Model.n -> Model.edge list -> Model.edge -> c)
    (sch : Model.nat -> Model.sched) (c0 : c) (s0 : Model.snap) : cfg =
  let st = ref (Some { Model.cm_snap = s0; Model.cm_cache = c0; Model.cm_step = Model.O }) in
  { name;
    step = (fun o ->
        match !st with
        | None -> false
        | Some x -> st := Model.cmstep alloc lt cget cadd sch x o; !st <> None);
    snap = (fun () -> match !st with Some x -> Some x.Model.cm_snap | None -> None) }

let make_cfg_z (type c) name alloc gt
    (cget : c -> Model.n -> Model.ref list -> Model.nat list -> Model.ref option)
    (cadd : c -> Model.n -> Model.ref list -> Model.nat list -> Model.ref -> c)
    (sch : Model.nat -> Model.sched) (c0 : c) (s0 : Model.snap) : cfg =
  let st = ref (Some { Model.zm_snap = s0; Model.zm_cache = c0; Model.zm_step = Model.O }) in
  { name;
    step = (fun o ->
        match !st with
        | None -> false
        | Some x -> st := Model.zmstep alloc gt cget cadd sch x o; !st <> None);
    snap = (fun () -> match !st with Some x -> Some x.Model.zm_snap | None -> None) }

let par_sched (f : int -> bool * bool) d = Model.sched_depth (nat d) (fun path -> f (List.length path)) []
let alloc_addr s = Model.addr_of (pos_of_z (Z.of_int 4096)) (nat 4) (Model.fresh_id s)
let alloc_odd s = Model.addr_of Model.XH (nat 1) (Model.fresh_id s)
let sch_swapped _ = par_sched (fun _ -> (true, true)) 3
let sch_mixed k = let k = int_of_nat k in par_sched (fun len -> ((len + k) mod 2 = 0, k mod 2 = 1)) 2

let ekey (e : Model.edge) = (zref e.Model.eref, e.Model.etag)

let model_cfgs_bcdd (n : int) : cfg list =
  let ids = List.init n nat in
  let s0 = { Model.s_kind = Model.KBcdd; Model.s_nodes = Model.PositiveMap.empty;
             Model.s_terms = [ (n_of_int 0, n_of_int 1) ];
             Model.s_v2l = ids; Model.s_l2v = ids; Model.s_handles = [] } in
  [ make_cfg_c "A" Model.fresh_id (fun _ _ -> false) Model.enc_get Model.enc_add (fun _ -> Model.SSeq) () s0;
    make_cfg_c "B" alloc_addr (fun a b -> compare (ekey a) (ekey b) < 0) Model.eac_get Model.eac_add sch_swapped [] s0;
    make_cfg_c "C" alloc_odd (fun a b -> compare (ekey a) (ekey b) > 0) Model.enc_get Model.enc_add sch_mixed () s0 ]

let model_cfgs_zbdd (n : int) : cfg list =
  let e0 = { Model.s_kind = Model.KZbdd; Model.s_nodes = Model.PositiveMap.empty;
             Model.s_terms = [ (n_of_int 0, n_of_int 0); (n_of_int 1, n_of_int 1) ];
             Model.s_v2l = []; Model.s_l2v = []; Model.s_handles = [] } in
  match Model.zadd_vars e0 (nat n) with
  | None -> []
  | Some (s0, _) ->
    [ make_cfg_z "A" Model.fresh_id (fun _ _ -> false) Model.znc_get Model.znc_add (fun _ -> Model.SSeq) () s0;
      make_cfg_z "B" alloc_addr (fun a b -> Z.gt (zref a) (zref b)) Model.zac_get Model.zac_add sch_swapped [] s0;
      make_cfg_z "C" alloc_odd (fun a b -> Z.lt (zref a) (zref b)) Model.znc_get Model.znc_add sch_mixed () s0 ]

(* the hypotheses of the history theorems, on a model table *)
let kind_ok (kname : string) (s : Model.snap) : bool =
  match kname with
  | "bcdd" -> Model.bcok_b s
  | "zbdd" -> Model.zbdd_ok_b s && Model.zchain_ok_b s
  | _ -> Model.wf_b s

(* observation of a table: per slot (sorted) value table and node count; variable order *)
let observation (s : Model.snap) : string =
  let n = List.length s.Model.s_l2v in
  let l2v = Array.of_list (List.map int_of_nat s.Model.s_l2v) in
  let hs = List.sort compare (List.map (fun (k, e) -> (int_of_n k, e)) s.Model.s_handles) in
  let b = Buffer.create 256 in
  List.iter
    (fun (slot, e) ->
      Buffer.add_string b (Printf.sprintf "h%d=" slot);
      for a = 0 to (1 lsl n) - 1 do
        let c (lvl : Model.nat) : Model.nat =
          let l = int_of_nat lvl in
          if l < n && (a lsr l2v.(l)) land 1 = 1 then Model.O else Model.S Model.O in
        Buffer.add_string b (match Model.sem_edge s e c with Some v -> string_of_n v | None -> "?")
      done;
      Buffer.add_string b (Printf.sprintf "#%s;" (string_of_n (Model.count_reach s e))))
    hs;
  Buffer.add_string b ("o" ^ String.concat "," (List.map (fun v -> string_of_int (int_of_nat v)) s.Model.s_v2l));
  Buffer.contents b

let () =
  iter_cases stdin (fun c ->
      let failed = ref false in
      let fail step kind msg =
        if not !failed then (failed := true; verdict_bad c step kind ("prop=C20 " ^ msg)) in
      let kname = match param c "kind" with Some k -> k | None -> "bdd" in
      let cfgs_of n = match kname with
        | "bcdd" -> model_cfgs_bcdd n | "zbdd" -> model_cfgs_zbdd n | _ -> model_cfgs n in
      stat ("cases_" ^ kname) 1;
      let cfgs : cfg list ref = ref [] in
      let usable = ref true in
      List.iteri
        (fun i l ->
          if !usable && not !failed then
            if l = "HANG" || starts_with l "PANIC" || starts_with l "CRASH" then
              fail i "prop" ("implementation did not complete the call: " ^ l)
            else
              let ops, res = split_arrow l in
              let toks = split_ws ops in
              let run (o : Model.mop) =
                if starts_with res "ok" then
                  List.iter (fun (g : cfg) ->
                      if not (g.step o) then fail i "corr" ("model configuration " ^ g.name ^ " fails on " ^ ops))
                    !cfgs
                else if starts_with res "err oom" then (stat "oom" 1; usable := false)
                else fail i "corr" ("unexpected result in trace: " ^ l) in
              stat ("op_" ^ List.hd toks) 1;
              match toks with
              | [ "VARS"; k ] ->
                if !cfgs = [] then (cfgs := cfgs_of (int_of_string k);
                                    if !cfgs = [] then fail i "corr" "model: no start table")
                else (stat "unsupported" 1; usable := false)
              | [ "VAR"; d; v ] -> run (Model.MVar (n_of_int (slot_of d), nat (int_of_string v), false))
              | [ "NVAR"; d; v ] -> run (Model.MVar (n_of_int (slot_of d), nat (int_of_string v), true))
              | [ "CONST"; d; b ] -> run (Model.MConst (n_of_int (slot_of d), b = "1"))
              | [ "NOT"; d; a ] -> run (Model.MNot (n_of_int (slot_of d), n_of_int (slot_of a)))
              | [ "ITE"; d; a; b; e ] ->
                run (Model.MIte (n_of_int (slot_of d), n_of_int (slot_of a), n_of_int (slot_of b), n_of_int (slot_of e)))
              | [ "CLONE"; d; a ] -> run (Model.MClone (n_of_int (slot_of d), n_of_int (slot_of a)))
              | [ "DROP"; a ] -> run (Model.MDrop (n_of_int (slot_of a)))
              | [ op; d; a; b ] when bop_of op <> None ->
                (match bop_of op with
                 | Some o -> run (Model.MBin (n_of_int (slot_of d), o, n_of_int (slot_of a), n_of_int (slot_of b)))
                 | None -> ())
              | [ "NC"; a ] ->
                (match split_ws res with
                 | [ "n"; k ] ->
                   List.iter (fun (g : cfg) ->
                       match g.snap () with
                       | Some s ->
                         (match List.assoc_opt (slot_of a) (List.map (fun (k, e) -> (int_of_n k, e)) s.Model.s_handles) with
                          | Some e ->
                            stat "nc_compared" 1;
                            let m = string_of_n (Model.count_reach s e) in
                            if m <> k then
                              fail i "prop" (Printf.sprintf "node_count reports %s, every model configuration has %s nodes (model %s)" k m g.name)
                          | None -> fail i "corr" "NC of a slot the model does not hold")
                       | None -> ())
                     !cfgs
                 | _ -> fail i "corr" ("unexpected NC result: " ^ l))
              | [ "SNAP" ] ->
                (try
                   let ps = parse_snapshot kname res in
                   let real = observation ps.snap in
                   stat "snapshots" 1;
                   (* model configurations among themselves *)
                   let mobs = List.filter_map (fun (g : cfg) ->
                       match g.snap () with Some s -> Some (g.name, s, observation s) | None -> None) !cfgs in
                   (match mobs with
                    | (_, _, o0) :: rest ->
                      List.iter (fun (nm, _, o) ->
                          if o <> o0 then fail i "corr" ("model configurations A and " ^ nm ^ " disagree: " ^ o0 ^ " / " ^ o))
                        rest;
                      List.iter (fun (nm, s, _) ->
                          if not (Model.wf_b s) then fail i "corr" ("model table of configuration " ^ nm ^ " not well-formed");
                          if not (kind_ok kname s) then
                            fail i "corr" ("model table of configuration " ^ nm ^ " violates the kind's invariant (bcok_b / zbdd_ok_b + zchain_ok_b)"))
                        mobs;
                      stat "model_tables_distinct"
                        (if List.exists (fun (_, s, _) -> s <> (let (_, s0, _) = List.hd mobs in s0)) rest then 1 else 0);
                      if real <> o0 then
                        fail i "prop" ("observation of the real manager differs from the model (all configurations): real " ^ real ^ " model " ^ o0)
                    | [] -> ());
                   (* renaming invariance on the real table *)
                   let rho = Model.addr_of (pos_of_z (Z.of_int 4096)) (nat 4) in
                   let rs = Model.rename_snap rho ps.snap in
                   stat "renamed" 1;
                   if observation rs <> real then fail i "corr" "observation changed by renaming node ids";
                   if Model.wf_b rs <> Model.wf_b ps.snap then fail i "corr" "wf_b changed by renaming node ids";
                   if Model.rc_exact_b rs [] <> Model.rc_exact_b ps.snap [] then
                     fail i "corr" "rc_exact_b changed by renaming node ids"
                 with Failure m -> fail i "corr" ("driver: " ^ m))
              | _ -> stat "ignored_ops" 1)
        c.lines;
      stat "cases" 1;
      stat "steps" (List.length c.lines);
      if not !usable then stat "cases_cut_short" 1;
      if not !failed then verdict_ok c);
  dump_stats ()
