(* Shared by all drivers: conversions between OCaml/Zarith numbers and the
   extracted inductive numbers of [Model] (positive, n, z, nat), plus the
   case-file reader.  Zarith's module is [Z]; [Model] is never opened here so
   that an extracted [Model.Z]/[Model.N] does not shadow it. *)

let rec pos_of_z (x : Z.t) : Model.positive =
  if Z.leq x Z.one then Model.XH
  else if Z.is_even x then Model.XO (pos_of_z (Z.shift_right x 1))
  else Model.XI (pos_of_z (Z.shift_right x 1))

let rec z_of_pos (p : Model.positive) : Z.t =
  match p with
  | Model.XH -> Z.one
  | Model.XO q -> Z.shift_left (z_of_pos q) 1
  | Model.XI q -> Z.succ (Z.shift_left (z_of_pos q) 1)

let n_of_z (x : Z.t) : Model.n = if Z.sign x <= 0 then Model.N0 else Model.Npos (pos_of_z x)
let z_of_n (x : Model.n) : Z.t = match x with Model.N0 -> Z.zero | Model.Npos p -> z_of_pos p

let mz_of_z (x : Z.t) : Model.z =
  if Z.sign x = 0 then Model.Z0
  else if Z.sign x > 0 then Model.Zpos (pos_of_z x)
  else Model.Zneg (pos_of_z (Z.neg x))

let z_of_mz (x : Model.z) : Z.t =
  match x with Model.Z0 -> Z.zero | Model.Zpos p -> z_of_pos p | Model.Zneg p -> Z.neg (z_of_pos p)

let rec nat_of_int (i : int) : Model.nat = if i <= 0 then Model.O else Model.S (nat_of_int (i - 1))
let int_of_nat (x : Model.nat) : int =
  let rec go acc = function Model.O -> acc | Model.S y -> go (acc + 1) y in
  go 0 x

let n_of_string s = n_of_z (Z.of_string s)
let n_of_int i = n_of_z (Z.of_int i)
let string_of_n x = Z.to_string (z_of_n x)
let int_of_n x = Z.to_int (z_of_n x)
let mz_of_string s = mz_of_z (Z.of_string s)
let string_of_mz x = Z.to_string (z_of_mz x)

(* ---- case files ------------------------------------------------------- *)

type case = { header : string; lines : string list }

let split_ws s = List.filter (fun t -> t <> "") (String.split_on_char ' ' s)

let param (c : case) (key : string) : string option =
  let pre = key ^ "=" in
  let pl = String.length pre in
  List.find_map
    (fun t ->
      if String.length t >= pl && String.sub t 0 pl = pre then
        Some (String.sub t pl (String.length t - pl))
      else None)
    (split_ws c.header)

let param_int c key default =
  match param c key with Some v -> (try int_of_string v with _ -> default) | None -> default

let case_id c = match split_ws c.header with id :: _ -> id | [] -> "?"

(* calls [f] on every case of [ic] as it is read (streaming) *)
let iter_cases (ic : in_channel) (f : case -> unit) : unit =
  let cur = ref None in
  (try
     while true do
       let l = input_line ic in
       let n = String.length l in
       if n >= 5 && String.sub l 0 5 = "CASE " then cur := Some (String.sub l 5 (n - 5), [])
       else if l = "END" then (
         (match !cur with
         | Some (h, ls) -> f { header = h; lines = List.rev ls }
         | None -> ());
         cur := None)
       else
         match !cur with
         | Some (h, ls) -> if l <> "" then cur := Some (h, l :: ls)
         | None -> ()
     done
   with End_of_file -> ())

(* split "op args -> result" *)
let split_arrow (l : string) : string * string =
  let n = String.length l in
  let rec find i =
    if i + 4 > n then None else if String.sub l i 4 = " -> " then Some i else find (i + 1)
  in
  match find 0 with
  | Some i -> (String.sub l 0 i, String.sub l (i + 4) (n - i - 4))
  | None -> (l, "")

(* verdict protocol (read by lib/vf.py):
     V <case-id> ok
     V <case-id> bad step=<k> kind=<corr|prop> <free text>
     S <key> <int>                  statistics, summed by the caller *)
let verdict_ok c = Printf.printf "V %s ok\n" (case_id c)
let verdict_bad c step kind msg = Printf.printf "V %s bad step=%d kind=%s %s\n" (case_id c) step kind msg
let stats : (string, int) Hashtbl.t = Hashtbl.create 16
let stat k d = Hashtbl.replace stats k (d + try Hashtbl.find stats k with Not_found -> 0)
let dump_stats () = Hashtbl.iter (fun k v -> Printf.printf "S %s %d\n" k v) stats
