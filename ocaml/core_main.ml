(* CORETIE driver (stage `core` of checks/C05.py): replays the MERGED event log of the index-based manager
   -- the slot allocator events `EV A <thread> <event> ..` of `mod atrace` (package ALLOC) and, in the same
   mutex-ordered log, the unique table's and the reference counts' events `EV K <thread> <site> ..`
   (GOI_LEVEL 2, GOI_FOUND 3, GOI_NEW 4, GC_REMOVE 6, RETAIN 11, RELEASE 12; case parameters alloc=1 core=1 of
   harness/src/bin/h_dd.rs, hooks build) -- on the extracted composed model coq/Mgr/Core.v: ONE model state
   [Model.kst] (unique table + reported counts + ownership tokens + hash-table edges, on the node store of
   Mgr/IndexStore.v, on the slot allocator of Mgr/Alloc.v) for the case's manager, from [Model.kinit] at the
   `N` event to the end of the case, sequential parts and parallel blocks alike; every step is [Model.kstep].

   Events -> actions of Core.v (one action = one atomic step of the model):
     get_or_insert, new      S? R id, K 4 id ch     [KGoi t lvl ch] at the FIRST of these events (the moment the
                                                     allocator is asked); the result must be [KRNew id]: the id the
                                                     code inserted under is the slot the model's allocator returns;
                                                     S present <=> the model's path is a shared-state path
     get_or_insert, found    K 3 id ch, K 12 c ..   [KGoi t lvl ch] at K 3, result [KRFound id]; the RELEASE events of
                                                     the consumed child edges (`drop(node)`) that follow are part of it
     get_or_insert, failed   S? R 0, K 12 c ..      [KGoi t lvl ch], result [KROom]; the hooks do not log the children
                                                     of a failed call (GOI_NEW sits behind `insert(node)?`): the inner
                                                     children are the RELEASE events of `add_node`'s `drop_with` that
                                                     follow (a prefix of the thread's next releases), terminal children
                                                     are tried; every choice leaves the same model state (the failed
                                                     call IS the release of its inner child edges); accepted if some
                                                     completion is enabled and fails in the model too
     clone_edge / drop_edge  K 11 id / K 12 id      [KRetain t e] / [KRelease t e]
     collector removal       K 6 id, K 12 c .., F id kind (, L)   [KGc t id] at the LAST of these events (the moment
                                                     the slot reaches the allocator), result [KRRemoved]
     P B T G C, thread start                        [KInternal (APrepare | ABind | ADropGuard | AGcFlush | ASpawn ..)]
   Ownership by thread is not observable (an `Edge` value moves between threads without a memory access, BCDD
   complements an owned edge without one): before an action that consumes owned edges of thread t the driver
   inserts [KMove] / [KNot] steps that bring existing tokens for the same node to (t, edge).  If no token for the
   node exists the code consumed a reference nobody owns: kind=prop (C05: counts).

   At every snapshot (SNAP line) of a case that the model followed: [Model.kproj] of the model state = the
   lifted snapshot: the same node ids, levels, child edges (with tags) and REPORTED reference counts; the
   allocator component [i_al] of the model state = the state that the plain allocator replay (the same
   [Model.step] calls as ocaml/alloc_main.ml makes) computes next to it; [klink_b], [iinv_b], [cinv_b] on
   small stores.

   Verdicts: prop=C05: reference count differs at a snapshot; a slot is handed out that holds a node in the model
   (id reuse); a release / consumed child edge without an owned edge; the collector removes a node whose model
   count is not 0.  prop=C14: OutOfMemory where the model's allocator hands out a slot; `err oom` in the retry
   phase (retry_at).  Everything else kind=corr.

   An explicit gc() directly after a snapshot (sequential part) is also compared with the model's own whole
   collection [Model.kcollect] from the state at that snapshot: same surviving nodes, same counts, same number
   of removed nodes as gc() returns.

   Outside Core.v (it has no apply cache): a clone of an edge that nobody owns or can borrow -- the weak value
   edge of an apply-cache hit revives a dead node.  The driver emulates it with actions the model has: the node
   is obtained again through [KGoi] of its own shape (found), its child edges are cloned first (see [revive]);
   statistic cache_revivals_emulated.  If even that is not enabled the replay of the case stops
   (left_scope_cache_revival), later lines are not judged. *)
open Conv

let starts_with s p = String.length s >= String.length p && String.sub s 0 (String.length p) = p
let nat_cache =
  let a = Array.make 4097 Model.O in
  for i = 1 to 4096 do a.(i) <- Model.S a.(i - 1) done;
  a
let nat i = if i >= 0 && i <= 4096 then nat_cache.(i) else nat_of_int i
let kind_of = function
  | "bdd" -> Model.KBdd | "bcdd" -> Model.KBcdd | "zbdd" -> Model.KZbdd | k -> failwith ("kind " ^ k)
let term_code kname (v : string) : int =
  match kname, v with
  | "bdd", "False" -> 0 | "bdd", "True" -> 1
  | "bcdd", _ -> 1
  | "zbdd", "Empty" -> 0 | "zbdd", "Base" -> 1
  | _, _ -> failwith ("terminal " ^ v)
let pos i = pos_of_z (Z.of_int i)
let int_of_pos p = Z.to_int (z_of_pos p)
let mk_edge termn id tag : Model.edge =
  { Model.eref = (if id < termn then Model.RT (n_of_int id) else Model.RN (pos id)); Model.etag = tag }
let show_edge (e : Model.edge) =
  (match e.Model.eref with
   | Model.RN p -> "n" ^ string_of_int (int_of_pos p)
   | Model.RT t -> "t" ^ string_of_n t)
  ^ if e.Model.etag then "~" else ""
let inner_id (e : Model.edge) = match e.Model.eref with Model.RN p -> Some (int_of_pos p) | Model.RT _ -> None
let split_bar (s : string) : string list =
  let res = ref [] and cur = Buffer.create 64 in
  let n = String.length s in
  let i = ref 0 in
  while !i < n do
    if !i + 2 < n && s.[!i] = ' ' && s.[!i + 1] = '|' && s.[!i + 2] = ' ' then (
      res := Buffer.contents cur :: !res; Buffer.clear cur; i := !i + 3)
    else (Buffer.add_char cur s.[!i]; incr i)
  done;
  res := Buffer.contents cur :: !res;
  List.rev !res
(* snapshot: nodes (id, level, children as printed, reported count), terminals, number of levels *)
let parse_snapshot kname (body : string) =
  let nodes = ref [] and terms = ref [] and nl = ref 0 in
  List.iter
    (fun piece ->
      match split_ws piece with
      | "V2L" :: r -> nl := List.length r
      | "N" :: lvl :: id :: _var :: rc :: ch -> nodes := (int_of_string id, int_of_string lvl, String.concat " " ch, int_of_string rc) :: !nodes
      | "T" :: id :: v -> terms := (n_of_string id, n_of_int (term_code kname (String.concat " " v))) :: !terms
      | _ -> ())
    (split_bar body);
  (List.sort compare !nodes, List.rev !terms, !nl)

type ev = { t : int; cls : string; name : string; d : string list }

type store = {
  addr : string;
  cfg : Model.cfg;
  cap : int;
  termn : int;
  prim : bool;
  mutable ks : Model.kst;            (* primary store only: the composed model *)
  mutable al : Model.st;             (* plain allocator replay (as ocaml/alloc_main.ml) *)
  mutable nth : int;
  mutable sync : bool;
}

let path_name = function
  | Model.PLocalList -> "local list" | Model.PLocalRange -> "local range" | Model.PSharedList -> "shared list"
  | Model.PSharedChunk -> "new chunk" | Model.PSharedBump -> "single uninitialised slot"
  | Model.PNonLocalList -> "shared list (non-local)" | Model.PNonLocalBump -> "single uninitialised slot (non-local)"
  | Model.POom -> "out of memory"
let gc_code = function Model.GDisabled -> 0 | Model.GInit -> 1 | Model.GTriggered -> 2

let () =
  iter_cases stdin (fun c ->
      let kname = match param c "kind" with Some k -> k | None -> "bdd" in
      let k = kind_of kname in
      let retry_at = param_int c "retry_at" (-1) in
      let lines = Array.of_list c.lines in
      let nlines = Array.length lines in
      let evs : ev option array =
        Array.map (fun l ->
            if starts_with l "EV A " || starts_with l "EV K " then
              (match split_ws l with
               | _ :: cls :: t :: name :: d -> (match int_of_string_opt t with Some t -> Some { t; cls; name; d } | None -> None)
               | _ -> None)
            else None) lines in
      let consumed = Array.make nlines false in
      let next_ev i t = (* next event of thread [t] after line [i] *)
        let rec go j = if j >= nlines then None else match evs.(j) with Some e when e.t = t -> Some (j, e) | _ -> go (j + 1) in
        go (i + 1) in
      let stores : (string, store) Hashtbl.t = Hashtbl.create 4 in
      let primary : store option ref = ref None in
      let cur_store : (int, string) Hashtbl.t = Hashtbl.create 16 in
      let terms : (Model.n * Model.n) list ref = ref [] and nl = ref 0 in
      let have_snap = ref false in
      let first_prop : (int * string * string) option ref = ref None in
      let first_corr : (int * string) option ref = ref None in
      let prop i p msg = if !first_prop = None then first_prop := Some (i, p, msg) in
      let corr i msg = if !first_corr = None then first_corr := Some (i, msg) in
      let level : (int, int) Hashtbl.t = Hashtbl.create 16 in             (* thread -> level of its last GOI_LEVEL *)
      let absorb : (int, int list) Hashtbl.t = Hashtbl.create 16 in      (* thread -> RELEASE events that belong to its last action *)
      let pend_new : (int, int) Hashtbl.t = Hashtbl.create 16 in         (* thread -> id of the GOI_NEW / R still to come *)
      let pend_gc : (int, int) Hashtbl.t = Hashtbl.create 16 in          (* thread -> node whose GC_REMOVE was logged, F / L to come *)
      let returned : (int, unit) Hashtbl.t = Hashtbl.create 16 in
      let pend_free : (int, string) Hashtbl.t = Hashtbl.create 16 in     (* thread -> store of its non-local free_slot in progress *)
      let opno = ref 0 in
      let ks_snap : Model.kst option ref = ref None in                   (* the model state at the snapshot directly before the current operation *)
      let stop (s : store) = if s.sync then (s.sync <- false; stat "out_of_sync" 1) in
      let desync i (s : store) msg = if s.sync then (stop s; corr i msg) in
      let scope_left i (s : store) what =
        if s.sync then (
          s.sync <- false; stat ("left_scope_" ^ what) 1; stat "lines_not_followed_after_leaving_scope" (nlines - i);
          if Sys.getenv_opt "CORE_DEBUG" <> None then Printf.printf "I %s left scope (%s) at line %d of %d: %s\n" (case_id c) what i nlines lines.(i)) in

      let kstep (s : store) a = Model.kstep k !terms (nat !nl) s.cfg s.ks a in
      (* one step of the composed model; [None] = not enabled (the state is unchanged) *)
      let kdo (s : store) a : (Model.kres * Model.ires list) option =
        match kstep s a with
        | Some ((ks', r), rs) -> s.ks <- ks'; stat "core_steps" 1; Some (r, rs)
        | None -> None in
      let astep (s : store) a = (* plain allocator *)
        match Model.step s.cfg Model.good s.al a with
        | Some (st', o) -> s.al <- st'; Some o
        | None -> None in
      let ensure (s : store) t =
        while s.nth <= t do
          ignore (astep s Model.ASpawn);
          if s.prim then ignore (kdo s (Model.KInternal Model.ASpawn));
          s.nth <- s.nth + 1
        done in
      (* an allocator-internal action: [KInternal] on the composed model and the same step on the plain allocator *)
      let internal i (s : store) (a : Model.act) what : Model.obs option =
        if not s.sync then None
        else
          let o1 = astep s a in
          if s.prim then (
            stat "core_internal" 1;
            match kdo s (Model.KInternal a), o1 with
            | Some (Model.KRObs o, _), Some o' when o = o' -> Some o
            | Some _, _ -> desync i s (Printf.sprintf "%s: the composed model and the allocator model differ" what); None
            | None, _ -> desync i s (Printf.sprintf "the model cannot follow the log: %s is not enabled in the model state" what); None)
          else (
            match o1 with
            | Some o -> Some o
            | None -> desync i s (Printf.sprintf "the model cannot follow the log: %s is not enabled (secondary store)" what); None) in
      let local_of (s : store) t : Model.local = ensure s t; List.nth s.al.Model.th t in
      let others_enter i a t =
        Hashtbl.iter (fun a' s' -> if a' <> a then (ensure s' t; ignore (internal i s' (Model.AOtherEnter (nat t)) "AOtherEnter"))) stores in
      let others_leave i a t nx ini =
        Hashtbl.iter (fun a' s' -> if a' <> a then (ensure s' t; ignore (internal i s' (Model.AOtherLeave (nat t, nx, ini)) "AOtherLeave"))) stores in
      let soft i (s : store) what reported model =
        if s.sync && reported <> model then (stat "soft_differences" 1; corr i (Printf.sprintf "%s: the log says %d, the model %d" what reported model)) in

      (* ---- ownership glue: bring tokens for the needed edges to thread [t] by KMove / KNot ---- *)
      let toks (s : store) = List.map (fun ((t', e), _) -> (int_of_nat t', e)) s.ks.Model.k_tok in
      let count_l x l = List.length (List.filter (fun y -> y = x) l) in
      let ensure_tokens (s : store) t (needs : Model.edge list) : int option =   (* Some id = no owned edge to that node *)
        let needs = List.filter (fun e -> inner_id e <> None) needs in
        let missing = ref None in
        List.iter
          (fun e ->
            let m = count_l e needs in
            let continue = ref true in
            while !continue && !missing = None do
              let tk = toks s in
              if count_l (t, e) tk >= m then continue := false
              else
                let surplus (t', e') =
                  inner_id e' = inner_id e && not (t' = t && e' = e) && (t' <> t || count_l (t, e') tk > count_l e' needs) in
                match List.find_opt surplus tk with
                | None -> missing := inner_id e
                | Some (t', e') ->
                  let okn = if e'.Model.etag <> e.Model.etag then (stat "glue_not" 1; kdo s (Model.KNot (nat t', e')) <> None) else true in
                  let okm = if okn && t' <> t then (stat "glue_move" 1; kdo s (Model.KMove (nat t', nat t, e)) <> None) else okn in
                  if not okm then missing := inner_id e
            done)
          (List.sort_uniq compare needs);
        !missing in
      let edges_of (s : store) (d : string list) : Model.edge list =
        let rec go = function id :: tag :: r -> mk_edge s.termn (int_of_string id) (tag <> "0") :: go r | _ -> [] in
        go d in
      let show_ch ch = String.concat " " (List.map show_edge ch) in
      let model_has_node (s : store) id = Model.cfind s.ks.Model.k_cn (pos id) <> None in

      (* ---- apply-cache revival (Core.v has no apply cache): `clone_edge` of a weak edge to a stored node that no
         thread owns or can borrow.  Emulated by actions the model has: the node is obtained once more through
         get_or_insert of its own shape ([KGoi] found: its count + 1, a token for the thread), the child edges that
         call consumes are cloned first (recursively revived if they are only reachable through dead nodes); the
         net change of the model state is exactly the clone's: count of the node + 1, one more owned edge ---- *)
      let rec revive (s : store) t (e : Model.edge) depth : bool =
        if kdo s (Model.KRetain (nat t, e)) <> None then true
        else if depth > !nl then false
        else match inner_id e with
          | None -> false
          | Some id ->
            match Model.cfind s.ks.Model.k_cn (pos id) with
            | None -> false
            | Some nd ->
              let ch = nd.Model.cch in
              List.for_all (fun c -> revive s t c (depth + 1)) (List.filter (fun c -> inner_id c <> None) ch)
              && ensure_tokens s t ch = None
              && (match kdo s (Model.KGoi (nat t, nd.Model.cl, ch)) with
                  | Some (Model.KRFound ex, _) when int_of_pos ex = id ->
                    if e.Model.etag then kdo s (Model.KNot (nat t, mk_edge s.termn id false)) <> None else true
                  | _ -> false) in

      (* ---- get_or_insert that asks the allocator: event [i] is S (shared) or R (thread-local path) of thread [t] ---- *)
      let do_alloc i (s : store) t ~(shared : string list option) =
        let (jr, er) =
          match shared with
          | Some _ -> (match next_ev i t with Some (j, ({ cls = "A"; name = "R"; _ } as e)) -> (j, e) | _ -> failwith "get_slot_from_shared without add_node result")
          | None -> (i, match evs.(i) with Some e -> e | None -> failwith "event") in
        let id = int_of_string (List.nth er.d 1) in
        if shared <> None then (consumed.(jr) <- true);
        let lvl = match Hashtbl.find_opt level t with Some l -> l | None -> failwith "add_node without a preceding GOI_LEVEL event" in
        let pre_lists = List.length s.al.Model.sh.Model.s_free and pre_alloc = int_of_n s.al.Model.sh.Model.s_alloc in
        let check_shared (pa : Model.path) =
          let is_local = (pa = Model.PLocalList || pa = Model.PLocalRange) in
          stat ("path_" ^ String.map (fun ch -> if ch = ' ' || ch = '(' || ch = ')' || ch = '-' then '_' else ch) (path_name pa)) 1;
          (match shared with
           | Some d ->
             let num k = int_of_string (List.nth d k) in
             if is_local then desync i s (Printf.sprintf "add_node of thread %d asked the shared state, the model takes a slot from the %s" t (path_name pa))
             else (
               soft i s "number of shared free lists at get_slot_from_shared" (num 4) pre_lists;
               soft i s "allocation pointer at get_slot_from_shared" (num 5) pre_alloc;
               soft i s "shared node count after get_slot_from_shared" (num 2) (Z.to_int (z_of_mz s.al.Model.sh.Model.s_count));
               soft i s "gc state after get_slot_from_shared" (num 3) (gc_code s.al.Model.sh.Model.s_gc))
           | None ->
             if not is_local then desync i s (Printf.sprintf "add_node of thread %d did not ask the shared state, the model does (%s)" t (path_name pa))) in
        if id <> 0 then (
          (* successful insertion: the GOI_NEW event of the thread follows its R event *)
          let ch =
            match next_ev jr t with
            | Some (jg, { cls = "K"; name = "4"; d = idg :: ch; _ }) when int_of_string idg = id -> consumed.(jg) <- true; edges_of s ch
            | _ -> failwith (Printf.sprintf "add_node returned slot %d outside of get_or_insert (no GOI_NEW event of the thread follows)" id) in
          stat "goi_new" 1;
          (match ensure_tokens s t ch with
           | Some cid -> prop i "C05" (Printf.sprintf "get_or_insert(level %d, [%s]) consumes an edge to n%d, but in the replayed model no thread owns an edge to it (reference count not exact)" lvl (show_ch ch) cid); stop s
           | None ->
             let live_before = (Model.nget s.ks.Model.k_i.Model.i_nodes (n_of_int id) <> None) in
             ignore (astep s (Model.AAlloc (nat t)));
             match kdo s (Model.KGoi (nat t, nat lvl, ch)) with
             | Some (Model.KRNew fr, [ Model.IRAdded (_, pa) ]) when int_of_pos fr = id -> check_shared pa
             | Some (Model.KRNew fr, _) ->
               if live_before then
                 prop i "C05" (Printf.sprintf "slot %d is handed out to thread %d (get_or_insert(level %d, [%s])) although it holds a node in the replayed model; the model's allocator returns slot %d" id t lvl (show_ch ch) (int_of_pos fr))
               else corr i (Printf.sprintf "get_or_insert(level %d, [%s]) inserted under id %d, the model's allocator returns slot %d" lvl (show_ch ch) id (int_of_pos fr));
               stop s
             | Some (Model.KROom, _) ->
               if live_before then prop i "C05" (Printf.sprintf "slot %d is handed out to thread %d although it holds a node in the replayed model (the model is out of memory)" id t)
               else corr i (Printf.sprintf "get_or_insert(level %d, [%s]) inserted under id %d, the model is out of memory" lvl (show_ch ch) id);
               stop s
             | Some (Model.KRFound ex, _) ->
               desync i s (Printf.sprintf "get_or_insert(level %d, [%s]) inserted a new node %d, the model finds n%d" lvl (show_ch ch) id (int_of_pos ex))
             | Some _ -> desync i s "KGoi: unexpected result"
             | None ->
               if not (Model.node_pre_b k !terms (nat !nl) s.ks.Model.k_cn (nat lvl) ch) then
                 desync i s (Printf.sprintf "get_or_insert(level %d, [%s]) -> %d: the model's guard fails (child not stored / not below / not reduced)" lvl (show_ch ch) id)
               else desync i s (Printf.sprintf "get_or_insert(level %d, [%s]) -> %d: KGoi is not enabled in the model state" lvl (show_ch ch) id));
          Hashtbl.replace pend_new t id)
        else (
          (* failed call: children from the RELEASE events that follow *)
          stat "goi_oom" 1;
          let rec rel j acc n = if n = 0 then List.rev acc else
              match next_ev j t with
              | Some (j', { cls = "K"; name = "12"; d = [ x ]; _ }) -> rel j' ((j', int_of_string x) :: acc) (n - 1)
              | _ -> List.rev acc in
          let rels = rel jr [] 2 in
          let tags = if kname = "bcdd" then [ false; true ] else [ false ] in
          let inner x = List.map (fun tg -> mk_edge s.termn x tg) tags in
          let terminals = List.concat_map (fun (x, _) -> List.map (fun tg -> { Model.eref = Model.RT x; Model.etag = tg }) tags) !terms in
          let pairs l1 l2 = List.concat_map (fun a -> List.map (fun b -> [ a; b ]) l2) l1 in
          let cands_for = function
            | [ a; b ] -> pairs (inner a) (inner b)
            | [ a ] -> pairs (inner a) terminals @ pairs terminals (inner a)
            | _ -> pairs terminals terminals in
          let prefixes = List.rev (List.init (List.length rels + 1) (fun n -> List.filteri (fun q _ -> q < n) rels)) in
          let ks0 = s.ks in
          let result = ref None and would_succeed = ref None in
          List.iter
            (fun pre ->
              List.iter
                (fun ch ->
                  if !result = None && Model.node_pre_b k !terms (nat !nl) ks0.Model.k_cn (nat lvl) ch then (
                    s.ks <- ks0;
                    if ensure_tokens s t ch = None then
                      match kdo s (Model.KGoi (nat t, nat lvl, ch)) with
                      | Some (Model.KROom, _) -> result := Some (s.ks, pre, ch)
                      | Some (Model.KRNew fr, [ Model.IRAdded (_, pa) ]) -> if !would_succeed = None then would_succeed := Some (int_of_pos fr, pa, ch)
                      | _ -> ()))
                (cands_for (List.map snd pre)))
            prefixes;
          s.ks <- ks0;
          match !result with
          | Some (ks', pre, _ch) ->
            s.ks <- ks';
            ignore (astep s (Model.AAlloc (nat t)));
            stat "oom" 1;
            check_shared Model.POom;
            Hashtbl.replace absorb t (List.map snd pre)
          | None ->
            (match !would_succeed with
             | Some (fr, pa, ch) ->
               prop i "C14" (Printf.sprintf "add_node of thread %d failed with OutOfMemory (get_or_insert on level %d), the composed model inserts [%s] into slot %d from the %s (%d of %d slots hold a node)"
                               t lvl (show_ch ch) fr (path_name pa) (List.length ks0.Model.k_cn) s.cap)
             | None -> corr i (Printf.sprintf "failed get_or_insert of thread %d on level %d: no completion of the released children [%s] is enabled in the model"
                                 t lvl (String.concat " " (List.map (fun (_, x) -> "n" ^ string_of_int x) rels))));
            stop s) in

      (* the collector's removal of node [id] by thread [t] reaches the allocator now *)
      let do_gc i (s : store) t id =
        Hashtbl.remove pend_gc t;
        (match Hashtbl.find_opt absorb t with
         | Some (_ :: _) -> desync i s (Printf.sprintf "free_slot of n%d before all child edges of the node were released" id)
         | _ -> ());
        if s.sync then (
          ignore (astep s (Model.AFree (nat t, n_of_int id)));
          stat "gc_removed" 1;
          match kdo s (Model.KGc (nat t, pos id)) with
          | Some (Model.KRRemoved, _) -> ()
          | Some (Model.KRKept, [ Model.IRKept rc ]) ->
            prop i "C05" (Printf.sprintf "the collector removed n%d and freed its slot although the replayed model counts %s reference(s) besides the unique table's" id (Z.to_string (Z.pred (z_of_n rc)))); stop s
          | Some _ -> desync i s "KGc: unexpected result"
          | None -> desync i s (Printf.sprintf "the collector removed n%d: KGc is not enabled in the model state%s" id (if model_has_node s id then "" else " (the node is not stored)"))) in

      let event i (e : ev) =
        let t = e.t in
        let num q = int_of_string (List.nth e.d q) in
        stat ("ev_" ^ e.cls ^ e.name) 1;
        match e.cls, e.name with
        | "A", "N" ->
          let a = List.nth e.d 0 in
          let cfg = { Model.cap = n_of_int (num 1); Model.term = n_of_int (num 2); Model.chunk = n_of_int (num 3);
                      Model.lwm = mz_of_z (Z.of_int (num 4)); Model.hwm = mz_of_z (Z.of_int (num 5)) } in
          let prim = (!primary = None) in
          let s = { addr = a; cfg; cap = num 1; termn = num 2; prim; ks = Model.kinit cfg Model.O; al = Model.init cfg Model.O; nth = 0; sync = true } in
          Hashtbl.replace stores a s;
          if prim then primary := Some s;
          stat "stores" 1;
          Hashtbl.iter (fun t' a' -> if a' <> a then (ensure s t'; ignore (internal i s (Model.AOtherEnter (nat t')) "AOtherEnter"))) cur_store
        | "A", _ ->
          let a = match e.name with
            | "L" -> (match Hashtbl.find_opt pend_free t with Some a -> a | None -> "?")
            | "F" -> (if List.nth e.d 2 = "2" then Hashtbl.replace pend_free t (List.nth e.d 0)); List.nth e.d 0
            | "T" -> (match Hashtbl.find_opt cur_store t with Some a -> a | None -> (match !primary with Some p -> p.addr | None -> "?"))
            | _ -> List.nth e.d 0 in
          (match Hashtbl.find_opt stores a with
           | None -> if e.name = "B" then stat "ev_bind_foreign_store" 1 else corr i (Printf.sprintf "event %s of thread %d for an unknown store" e.name t)
           | Some s when not s.sync -> ()
           | Some s ->
             ensure s t;
             (match e.name with
              | "B" -> ignore (internal i s (Model.ABind (nat t)) "ABind"); Hashtbl.replace cur_store t a; others_enter i a t
              | "P" ->
                let took = num 1 = 1 in
                (match internal i s (Model.APrepare (nat t)) "APrepare" with
                 | Some (Model.OPrep b) when b = took -> ()
                 | Some _ -> desync i s (Printf.sprintf "prepare_local_state of thread %d %s the local state, the model says the opposite" t (if took then "bound" else "did not bind"))
                 | None -> ());
                if took then (Hashtbl.replace cur_store t a; others_enter i a t)
              | "S" ->
                if s.prim then do_alloc i s t ~shared:(Some e.d)
                else (ignore (astep s (Model.AAlloc (nat t))); match next_ev i t with Some (j, { cls = "A"; name = "R"; _ }) -> consumed.(j) <- true | _ -> ())
              | "R" ->
                if s.prim then (
                  match Hashtbl.find_opt pend_new t with
                  | Some id when id = num 1 -> ()          (* announced by the look-ahead at S *)
                  | _ -> do_alloc i s t ~shared:None)
                else ignore (astep s (Model.AAlloc (nat t)))
              | "F" ->
                let id = num 1 and kind = num 2 in
                stat (Printf.sprintf "free_kind%d" kind) 1;
                if kind = 2 then Hashtbl.replace pend_free t a;
                if s.prim then (
                  (match Hashtbl.find_opt pend_gc t with
                   | Some id' when id' = id -> ()
                   | _ -> desync i s (Printf.sprintf "free_slot of slot %d without a collector removal event (try_remove_node / drop of a last edge: not modelled)" id));
                  if kind = 0 then do_gc i s t id)
                else if kind = 0 then ignore (astep s (Model.AFree (nat t, n_of_int id)))
                else Hashtbl.replace pend_gc (-1 - t) id
              | "L" | "D" ->
                if s.prim then (match Hashtbl.find_opt pend_gc t with Some id -> do_gc i s t id | None -> corr i ("event " ^ e.name ^ " without a preceding F"))
                else (match Hashtbl.find_opt pend_gc (-1 - t) with
                    | Some id -> Hashtbl.remove pend_gc (-1 - t); ignore (astep s (Model.AFree (nat t, n_of_int id)))
                    | None -> ())
              | "T" ->
                (match internal i s (Model.ADropGuard (nat t)) "ADropGuard" with
                 | Some (Model.ODrop (true, nf)) ->
                   stat "guard_returns" 1;
                   Hashtbl.replace returned t ();
                   if num 0 <> int_of_n nf then desync i s (Printf.sprintf "head of the list returned at guard drop: the log says %d, the model %d" (num 0) (int_of_n nf));
                   soft i s "number of shared free lists after guard drop" (num 3) (List.length s.al.Model.sh.Model.s_free);
                   soft i s "shared node count after guard drop" (num 2) (Z.to_int (z_of_mz s.al.Model.sh.Model.s_count))
                 | Some _ -> desync i s "the guard drop returned slots / counts, the model's thread has nothing to return"
                 | None -> ())
              | "G" ->
                let l = local_of s t in
                if num 1 = 1 then (
                  if not (Hashtbl.mem returned t) then corr i "event G (returned) without a preceding T";
                  Hashtbl.remove returned t)
                else (
                  match internal i s (Model.ADropGuard (nat t)) "ADropGuard" with
                  | Some (Model.ODrop (false, _)) -> ()
                  | Some _ -> desync i s "the guard drop returned nothing, the model's thread has slots / counts to return"
                  | None -> ());
                Hashtbl.remove cur_store t;
                others_leave i a t l.Model.l_next l.Model.l_init
              | "C" ->
                (match internal i s (Model.AGcFlush (nat t)) "AGcFlush" with
                 | Some (Model.OFlush h) ->
                   stat "gc_flushes" 1;
                   if num 1 <> int_of_n h then desync i s (Printf.sprintf "head of the list returned by the collector thread: the log says %d, the model %d" (num 1) (int_of_n h));
                   soft i s "shared node count after the collector's epilogue" (num 2) (Z.to_int (z_of_mz s.al.Model.sh.Model.s_count))
                 | Some _ -> desync i s "AGcFlush: unexpected observation"
                 | None -> ())
              | _ -> stat "ev_unknown" 1))
        | "K", site ->
          (match !primary with
           | None -> corr i "table event before any store was created"
           | Some s when not s.sync -> ()
           | Some s ->
             ensure s t;
             if not !have_snap then failwith "table event before the first snapshot (terminals / number of levels unknown)";
             (match site with
              | "2" -> Hashtbl.replace level t (num 0)
              | "3" ->
                let id = num 0 and ch = edges_of s (List.tl e.d) in
                let lvl = match Hashtbl.find_opt level t with Some l -> l | None -> failwith "GOI_FOUND without GOI_LEVEL" in
                stat "goi_found" 1;
                (match ensure_tokens s t ch with
                 | Some cid -> prop i "C05" (Printf.sprintf "get_or_insert(level %d, [%s]) consumes an edge to n%d, but in the replayed model no thread owns an edge to it (reference count not exact)" lvl (show_ch ch) cid); stop s
                 | None ->
                   match kdo s (Model.KGoi (nat t, nat lvl, ch)) with
                   | Some (Model.KRFound ex, _) when int_of_pos ex = id -> Hashtbl.replace absorb t (List.filter_map inner_id ch)
                   | Some (Model.KRFound ex, _) -> desync i s (Printf.sprintf "get_or_insert(level %d, [%s]) found n%d, the model n%d" lvl (show_ch ch) id (int_of_pos ex))
                   | Some _ ->
                     (* (the model's allocator state has moved: the replay cannot go on) *)
                     desync i s (Printf.sprintf "get_or_insert(level %d, [%s]) found n%d, which the model's table does not hold" lvl (show_ch ch) id)
                   | None -> desync i s (Printf.sprintf "get_or_insert(level %d, [%s]) found n%d: KGoi is not enabled in the model state" lvl (show_ch ch) id))
              | "4" ->
                (match Hashtbl.find_opt pend_new t with
                 | Some id when id = num 0 -> Hashtbl.remove pend_new t
                 | _ -> desync i s (Printf.sprintf "GOI_NEW n%d without an add_node of the thread" (num 0)))
              | "6" ->
                let id = num 0 in
                (match Model.cfind s.ks.Model.k_cn (pos id) with
                 | Some nd -> Hashtbl.replace pend_gc t id; Hashtbl.replace absorb t (List.filter_map inner_id nd.Model.cch)
                 | None -> desync i s (Printf.sprintf "the collector removed n%d, which the model's table does not hold" id))
              | "11" ->
                let id = num 0 in
                stat "retain" 1;
                let try_tag tg = kdo s (Model.KRetain (nat t, mk_edge s.termn id tg)) <> None in
                if not (try_tag false || (kname = "bcdd" && try_tag true)) then (
                  let ks0 = s.ks in
                  if model_has_node s id && revive s t (mk_edge s.termn id false) 0 then stat "cache_revivals_emulated" 1
                  else if model_has_node s id then (s.ks <- ks0; scope_left i s "cache_revival")
                  else (prop i "C05" (Printf.sprintf "clone_edge of n%d, which is not stored in the replayed model (edge to a collected node)" id); stop s))
              | "12" ->
                let id = num 0 in
                (match Hashtbl.find_opt absorb t with
                 | Some (x :: r) ->
                   if x = id then (Hashtbl.replace absorb t r; stat "release_absorbed" 1)
                   else desync i s (Printf.sprintf "release of n%d where the release of the child edge n%d of the thread's last action is due" id x)
                 | _ ->
                   stat "release" 1;
                   let tk = toks s in
                   let mine = List.find_opt (fun (t', e') -> t' = t && inner_id e' = Some id) tk in
                   let any = match mine with Some x -> Some x | None -> List.find_opt (fun (_, e') -> inner_id e' = Some id) tk in
                   (match any with
                    | None -> prop i "C05" (Printf.sprintf "drop_edge of n%d, but in the replayed model no thread owns an edge to it (one release too many: reference count not exact)" id); stop s
                    | Some (_, e') ->
                      if ensure_tokens s t [ e' ] <> None || kdo s (Model.KRelease (nat t, e')) = None then
                        desync i s (Printf.sprintf "drop_edge of n%d: KRelease is not enabled in the model state" id)))
              | _ -> stat "ev_unknown" 1))
        | _ -> () in

      (* the model state against a snapshot *)
      let compare_snapshot i (s : store) nodes =
        stat "snapshots_compared" 1;
        let model =
          List.sort compare
            (List.map (fun (id, nd) -> (int_of_pos id, int_of_nat nd.Model.cl, show_ch nd.Model.cch, int_of_n nd.Model.crc)) s.ks.Model.k_cn) in
        stat "nodes_compared" (List.length nodes);
        if model <> nodes then (
          let shape l = List.map (fun (id, l, ch, _) -> (id, l, ch)) l in
          if shape model = shape nodes then (
            let (id, _, _, rcm), (_, _, _, rcs) = List.find (fun (a, b) -> a <> b) (List.combine model nodes) in
            prop i "C05" (Printf.sprintf "reference count of n%d: the manager reports %d, the replayed events (get_or_insert, clone_edge, drop_edge, collector) give %d" id rcs rcm))
          else (
            let only l1 l2 = List.filter (fun x -> not (List.mem x l2)) l1 in
            let show (id, lv, ch) = Printf.sprintf "n%d@%d[%s]" id lv ch in
            corr i (Printf.sprintf "unique table at the snapshot differs from the model's: only in the model {%s}, only in the manager {%s}"
                      (String.concat " " (List.map show (only (shape model) (shape nodes)))) (String.concat " " (List.map show (only (shape nodes) (shape model)))))));
        if s.ks.Model.k_i.Model.i_al <> s.al then corr i "the allocator component of the composed model differs from the plain allocator replay";
        if s.cap <= 64 then (
          stat "invariant_audits" 1;
          if not (Model.klink_b s.ks) then corr i "klink_b fails on the model state";
          if not (Model.iinv_b s.cfg s.ks.Model.k_i) then corr i "iinv_b fails on the model state";
          if not (Model.cinv_b k !terms (nat !nl) (Model.kproj s.ks)) then corr i "cinv_b fails on the projection of the model state") in

      Array.iteri
        (fun i l ->
          if consumed.(i) then ()
          else if l = "HANG" then prop i "C14" "implementation did not terminate (watchdog)"
          else if starts_with l "PANIC" || starts_with l "CRASH" then prop i "C14" ("implementation panicked/aborted: " ^ l)
          else match evs.(i) with
            | Some e ->
              (try event i e
               with Failure m | Invalid_argument m -> (match !primary with Some s -> stop s | None -> ()); corr i ("driver: cannot replay [" ^ l ^ "]: " ^ m)
                  | Not_found -> (match !primary with Some s -> stop s | None -> ()); corr i ("driver: cannot replay [" ^ l ^ "]"))
            | None ->
              if starts_with l "EV" then ()
              else (
                let ops, res = split_arrow l in
                (match split_ws ops with
                 | [ "SNAP" ] ->
                   (try
                      let nodes, tm, n = parse_snapshot kname res in
                      terms := tm; nl := n; have_snap := true;
                      (match !primary with
                       | Some s when s.sync ->
                         if Hashtbl.fold (fun _ l acc -> acc || l <> []) absorb false then desync i s "child edge releases of an action are still due at the snapshot"
                         else (compare_snapshot i s nodes; if s.sync then ks_snap := Some s.ks)
                       | _ -> ())
                    with Failure m -> corr i ("driver: " ^ m))
                 | [ "GC" ] when (match !primary, !ks_snap with Some s, Some _ -> s.sync && s.nth > 0 | _ -> false) ->
                   (* an explicit gc() directly after a snapshot (sequential part): the replayed removals against the model's
                      own whole collection [kcollect] (theorems C14_core_collect_proj, C14_core_retry_after_gc) from the
                      state at that snapshot: the same surviving nodes with the same counts, the same number removed *)
                   (match !primary, !ks_snap with
                    | Some s, Some ks0 ->
                      stat "kcollect_compared" 1;
                      let tbl (ks : Model.kst) = List.sort compare (List.map (fun (id, nd) -> (int_of_pos id, int_of_nat nd.Model.cl, show_ch nd.Model.cch, int_of_n nd.Model.crc)) ks.Model.k_cn) in
                      let kc = Model.kcollect k !terms (nat !nl) s.cfg (nat 0) ks0 in
                      stat "kcollect_removed" (List.length ks0.Model.k_cn - List.length kc.Model.k_cn);
                      if tbl kc <> tbl s.ks then
                        corr i (Printf.sprintf "gc(): the model's whole collection kcollect leaves %d nodes, the replayed removals %d (or the counts differ)" (List.length kc.Model.k_cn) (List.length s.ks.Model.k_cn))
                      else (match split_ws res with
                          | [ "collected"; n ] when int_of_string n <> List.length ks0.Model.k_cn - List.length kc.Model.k_cn ->
                            corr i (Printf.sprintf "gc() returned %s, the model's collection removes %d nodes" n (List.length ks0.Model.k_cn - List.length kc.Model.k_cn))
                          | _ -> ())
                    | _ -> ());
                   ks_snap := None; incr opno
                 | "PAR" :: _ -> ks_snap := None; stat "par_blocks" 1; (match !primary with Some s when s.sync -> stat "par_blocks_followed" 1 | _ -> ())
                 | "ENDPAR" :: _ -> ()
                 | tok :: _ when String.length tok > 0 && tok.[0] = 'T' && String.length tok <= 3 && String.length tok >= 2 && tok.[1] >= '0' && tok.[1] <= '9' -> ()
                 | _ ->
                   ks_snap := None;
                   if retry_at >= 0 && !opno >= retry_at && starts_with res "err oom" then
                     prop i "C14" (Printf.sprintf "retry after drop + gc: [%s] failed with out-of-memory again (capacity is at least the measured need)" ops);
                   incr opno)))
        lines;
      stat "cases" 1;
      stat "lines" nlines;
      (match !primary with
       | Some s ->
         stat "core_tokens_at_end" (List.length s.ks.Model.k_tok);
         if s.sync then (
           stat "cases_followed_to_the_end" 1;
           if s.ks.Model.k_i.Model.i_al <> s.al then corr nlines "the allocator component of the composed model differs from the plain allocator replay (end of the case)")
       | None -> corr 0 "no store was created (hooks inactive?)");
      ignore !have_snap;
      match !first_prop, !first_corr with
      | Some (i, p, msg), _ -> stat ("bad_" ^ p) 1; verdict_bad c i "prop" (Printf.sprintf "prop=%s %s" p msg)
      | None, Some (i, msg) -> verdict_bad c i "corr" ("prop=C05 " ^ msg)
      | None, None -> verdict_ok c);
  dump_stats ()
