(* Decision-diagram driver.  Reads the trace of harness/src/bin/h_dd.rs, lifts
   every snapshot into the extracted [Model.snap] and evaluates on it
   - the extracted checkers of DD/Table.v (wf_b, rc_exact_b, no_dead_b, count_reach),
   - the extracted interpreters (sem_edge) to obtain the value table of every handle,
   - the extracted spec layer of DD/Sem.v to decide what every operation must return.
   Usage: driver --props C01,C03,...   (only failures of the listed properties are
   reported as bad verdicts; all are counted in the statistics). *)
open Conv

let props : string list ref = ref []
(* --digest-order (C20): the variable order of every snapshot is part of the case digest *)
let digest_order = ref false
let () =
  let rec go = function
    | "--props" :: p :: r -> props := String.split_on_char ',' p; go r
    | "--digest-order" :: r -> digest_order := true; go r
    | _ :: r -> go r
    | [] -> ()
  in
  go (Array.to_list Sys.argv)

let wants p = !props = [] || List.mem p !props

open Dd_types

(* ---- per-case state ----------------------------------------------------- *)
type pend = { pstep : int; ptoks : string list; pres : string;
              pcap : (int * int array) list; pcap_n : int; pdst : int list;
              pcapf : (int * int list) list }

let bop_of = function
  | "AND" -> Some Model.OAnd | "OR" -> Some Model.OOr | "XOR" -> Some Model.OXor
  | "EQUIV" -> Some Model.OEquiv | "NAND" -> Some Model.ONand | "NOR" -> Some Model.ONor
  | "IMP" -> Some Model.OImp | "IMPS" -> Some Model.OImpStrict | _ -> None

(* TDD (kind "tdd"): the extracted three-valued logic of coq/DD/Tdd.v; value codes 0 F, 1 U, 2 T *)
let t3_tri = function 0 -> Model.TF | 1 -> Model.TU | _ -> Model.TT
let t3_code = function Model.TF -> 0 | Model.TU -> 1 | Model.TT -> 2
let t3_bop_of = function
  | "T3AND" -> Some Model.And | "T3OR" -> Some Model.Or | "T3NAND" -> Some Model.Nand | "T3NOR" -> Some Model.Nor
  | "T3XOR" -> Some Model.Xor | "T3EQUIV" -> Some Model.Equiv | "T3IMP" -> Some Model.Imp
  | "T3IMPS" -> Some Model.ImpStrict | _ -> None

let bits_of_mask (m : int) : int list =
  let rec go v acc = if v < 0 then acc else go (v - 1) (if (m lsr v) land 1 = 1 then v :: acc else acc) in
  go 62 []

exception Bad of string * string * string     (* property, kind, message *)

(* wide cases (header wide=1; bdd, bcdd, zbdd with 65..200 variables: eval packs the assignment into machine words,
   value tables are out of reach): every slot carries the specification function (extracted spec layer coq/DD/Sem.v:
   var_s, lift1, lift2, ite_s, restrict_s) of the expression that built it; EVALA h <bits> must return its value.
   No snapshot is lifted. *)
let wide_bool_case c =
  let failed = ref false in
  let fail step msg =
    stat "bad_C02" 1;
    if not !failed then (failed := true; verdict_bad c step "prop" ("prop=C02 wide eval: " ^ msg)) in
  let ex : (int, Model.bfun) Hashtbl.t = Hashtbl.create 64 in
  let get a = Hashtbl.find_opt ex (slot_of a) in
  List.iteri
    (fun i l ->
      if l = "HANG" || starts_with l "PANIC" || starts_with l "CRASH" then fail i ("implementation panicked/hung: " ^ l)
      else begin
        let ops, res = split_arrow l in
        if not (starts_with res "err") then
          match split_ws ops with
          | [ "CONST"; d; b ] -> Hashtbl.replace ex (slot_of d) (Model.const_s (b = "1"))
          | [ "VAR"; d; v ] -> Hashtbl.replace ex (slot_of d) (Model.var_s (nat (int_of_string v)))
          | [ "NVAR"; d; v ] -> Hashtbl.replace ex (slot_of d) (Model.lift1 not (Model.var_s (nat (int_of_string v))))
          | [ ("NOT" | "NOTO"); d; a ] ->
            (match get a with Some x -> Hashtbl.replace ex (slot_of d) (Model.lift1 not x) | None -> Hashtbl.remove ex (slot_of d))
          | [ "ITE"; d; f; g; h ] ->
            (match get f, get g, get h with
             | Some x, Some y, Some z -> Hashtbl.replace ex (slot_of d) (Model.ite_s x y z)
             | _ -> Hashtbl.remove ex (slot_of d))
          | [ "RESTRICT"; d; a; pos; neg ] ->
            (match get a with
             | Some x ->
               let lits = List.map (fun v -> (nat v, true)) (bits_of_mask (int_of_string pos))
                          @ List.map (fun v -> (nat v, false)) (bits_of_mask (int_of_string neg)) in
               Hashtbl.replace ex (slot_of d) (Model.restrict_s lits x)
             | None -> Hashtbl.remove ex (slot_of d))
          | [ "CLONE"; d; a ] ->
            (match get a with Some x -> Hashtbl.replace ex (slot_of d) x | None -> Hashtbl.remove ex (slot_of d))
          | [ ("DROP" | "DROPT"); a ] -> Hashtbl.remove ex (slot_of a)
          | [ "DROPALL" ] -> Hashtbl.reset ex
          | [ "EVALA"; a; bits ] ->
            (match get a, split_ws res with
             | Some x, [ "ev"; v ] ->
               stat "wide_eval" 1;
               let asg (vn : Model.nat) : bool = let k = int_of_nat vn in k < String.length bits && bits.[k] = '1' in
               let m = x asg in
               if v <> (if m then "1" else "0") then
                 fail i (Printf.sprintf "eval of h%d under %s is %s, the specification of the expression that built it gives %b"
                           (slot_of a) bits v m)
             | _ -> stat "unresolved" 1)
          | [ op; d; a; b ] when bop_of op <> None ->
            (match get a, get b, bop_of op with
             | Some x, Some y, Some o -> Hashtbl.replace ex (slot_of d) (Model.lift2 o x y)
             | _ -> Hashtbl.remove ex (slot_of d))
          | _ -> ()
      end)
    c.lines;
  stat "wide_cases" 1;
  if not !failed then verdict_ok c

let () =
  iter_cases stdin (fun c ->
      if param c "wide" = Some "1" && param c "kind" <> Some "tdd" then wide_bool_case c else
      let kname = match param c "kind" with Some k -> k | None -> "bdd" in
      let tts : (int, vt) Hashtbl.t = Hashtbl.create 64 in
      let fams : (int, int list) Hashtbl.t = Hashtbl.create 64 in
      let tt_n = ref 0 in
      let nvars = ref 0 in
      let pending : pend list ref = ref [] in
      let substs : (int, (int * int) list) Hashtbl.t = Hashtbl.create 8 in   (* sid -> [(var, slot)] *)
      let subst_tts : (int, (int * vt) list) Hashtbl.t = Hashtbl.create 8 in
      let gc_pending = ref false and dropall_gc = ref false in
      let zok = ref false in
      let ztaut : Model.ref list ref = ref [] in
      let since : string list ref = ref [] and prev_ps : psnap option ref = ref None in
      let order_req : int list option ref = ref None in
      let lswap_pending = ref false in   (* C08: a LEVELDOWN op since the last snapshot *)
      let prev_v2l : int array ref = ref [||] in
      let prev_counts : (int * int) option ref = ref None in
      let last_gc = ref (-1) in
      let tm_ops : (string list * string) list ref = ref [] in   (* C05 (terminals): ops since the last snapshot *)
      let init_inner = ref (-1) in
      let digest = Buffer.create 256 in
      let failed = ref false in
      let fail step prop kind msg =
        stat ("bad_" ^ prop) 1;
        if Sys.getenv_opt "DD_DEBUG" <> None then Printf.eprintf "[%s step %d] %s %s: %s\n" (case_id c) step prop kind msg;
        if (not !failed) && wants prop then (
          failed := true;
          verdict_bad c step kind (Printf.sprintf "prop=%s %s" prop msg))
      in
      let check prop = stat ("chk_" ^ prop) 1 in
      let invalidate slot = Hashtbl.remove tts slot; Hashtbl.remove fams slot in
      let mkpend i toks res dsts =
        let cap = List.filter_map (fun t ->
            if String.length t > 1 && t.[0] = 'h' then
              (match int_of_string_opt (String.sub t 1 (String.length t - 1)) with
               | Some sl -> (match Hashtbl.find_opt tts sl with Some v -> Some (sl, v) | None -> None)
               | None -> None)
            else None) toks in
        let capf = List.filter_map (fun t ->
            if String.length t > 1 && t.[0] = 'h' then
              (match int_of_string_opt (String.sub t 1 (String.length t - 1)) with
               | Some sl -> (match Hashtbl.find_opt fams sl with Some v -> Some (sl, v) | None -> None)
               | None -> None)
            else None) toks in
        { pstep = i; ptoks = toks; pres = res; pcap = cap; pcap_n = !tt_n; pdst = dsts; pcapf = capf } in

      (* ------------------------------------------------------------------ *)
      let resolve_pending (step : int) (ps : psnap) =
        let n = Array.length ps.l2v in
        let cur_p : pend option ref = ref None in
        let get s =
          let slot = slot_of s in
          match !cur_p with
          | Some p when List.mem_assoc slot p.pcap ->
            let t = List.assoc slot p.pcap in
            Some (if p.pcap_n < n then extend_vt kname p.pcap_n n t else t)
          | Some p when List.mem slot p.pdst && false -> None
          | _ -> Hashtbl.find_opt tts slot in
        (* value of a *destination* slot: always the current table *)
        let getd s = Hashtbl.find_opt tts (slot_of s) in
        let bf t = bfun_of_vt n t in
        let expect_bool prop pstep what dst (exp : vt) =
          check prop;
          match getd dst with
          | None -> stat "unresolved" 1
          | Some got ->
            (* MTBDD value codes are interned in order of first appearance (per driver process):
               the digest must contain the values themselves to be comparable between runs *)
            Buffer.add_string digest (Printf.sprintf "%d:%s;" pstep
              (if kname = "mtbdd" then
                 Digest.to_hex (Digest.string (String.concat "," (List.map mt_string_of_code (Array.to_list got))))
               else show_vt got));
            if got <> exp then
              fail pstep prop "prop"
                (if kname = "mtbdd" then
                   Printf.sprintf "%s: result values [%s], expected [%s]" what
                     (String.concat " " (List.map mt_string_of_code (Array.to_list got)))
                     (String.concat " " (List.map mt_string_of_code (Array.to_list exp)))
                 else Printf.sprintf "%s: result table %s, expected %s" what (show_vt got) (show_vt exp))
        in
        List.iter
          (fun p ->
            cur_p := Some p;
            let t = p.ptoks in
            let what = String.concat " " t in
            try
              match t with
              (* ---- MTBDD (F64, kind "mtbddf") ---------------------------------- *)
              (* value codes = interned normalised bit patterns (dd_types.ml [term_code]); what does not
                 need float arithmetic is checked here, the pointwise arithmetic of ADD .. MAX / ITE / VAR
                 by ocaml/c10b_main.ml with the extracted Flocq model of coq/Num/F64.v *)
              | [ "CONSTN"; dst; v ] when kname = "mtbddf" ->
                expect_bool "C10" p.pstep what dst (Array.make (1 lsl n) (term_code kname v))
              | [ "RESTRICT"; dst; a; pos; neg ] when kname = "mtbddf" ->
                (match get a with
                 | Some ta ->
                   let pos = int_of_string pos and neg = int_of_string neg in
                   expect_bool "C10" p.pstep what dst
                     (Array.init (1 lsl n) (fun i -> ta.((i lor pos) land lnot neg)))
                 | None -> stat "unresolved" 1)
              | "EVAL" :: a :: [] when kname = "mtbddf" ->
                (match get a, split_ws p.pres with
                 | Some ta, "vt" :: nn :: vals when int_of_string nn = n ->
                   check "C10";
                   let impl = Array.of_list (List.map (fun v -> term_code kname v) vals) in
                   if impl <> ta then
                     fail p.pstep "C10" "prop"
                       (Printf.sprintf "eval disagrees with the node-by-node interpretation of h%d" (slot_of a))
                 | _ -> stat "unresolved" 1)
              | ("VT" | "VAR" | "ADD" | "SUB" | "MUL" | "DIV" | "MIN" | "MAX" | "ITE") :: _ when kname = "mtbddf" -> ()
              (* ---- MTBDD (I64) ------------------------------------------------ *)
              | [ "CONSTN"; dst; v ] when kname = "mtbdd" ->
                expect_bool "C10" p.pstep what dst (Array.make (1 lsl n) (mt_code (i64v_of_string v)))
              | [ "VAR"; dst; v ] when kname = "mtbdd" ->
                let v = int_of_string v in
                expect_bool "C10" p.pstep what dst
                  (Array.init (1 lsl n) (fun idx -> mt_code (Model.INum (if (idx lsr v) land 1 = 1 then Model.Zpos Model.XH else Model.Z0))))
              | [ (("ADD" | "SUB" | "MUL" | "DIV" | "MIN" | "MAX") as op); dst; a; b ] when kname = "mtbdd" ->
                (match get a, get b with
                 | Some ta, Some tb ->
                   let f = match op with
                     | "ADD" -> Model.i64_add | "SUB" -> Model.i64_sub | "MUL" -> Model.i64_mul
                     | "DIV" -> Model.i64_div | "MIN" -> Model.i64_min | _ -> Model.i64_max in
                   expect_bool "C10" p.pstep what dst (Array.init (1 lsl n) (fun i -> mt_code (f (mt_val ta.(i)) (mt_val tb.(i)))))
                 | _ -> stat "unresolved" 1)
              | [ "ITE"; dst; a; b; cc ] when kname = "mtbdd" ->
                (match get a, get b, get cc with
                 | Some ta, Some tb, Some tc ->
                   (* only defined for 0-1-valued conditions *)
                   if Array.for_all (fun c -> Model.i64_is_zero (mt_val c) || Model.i64_is_one (mt_val c)) ta then
                     expect_bool "C10" p.pstep what dst
                       (Array.init (1 lsl n) (fun i -> if Model.i64_is_zero (mt_val ta.(i)) then tc.(i) else tb.(i)))
                   else stat "unresolved" 1
                 | _ -> stat "unresolved" 1)
              | [ "RESTRICT"; dst; a; pos; neg ] when kname = "mtbdd" ->
                (match get a with
                 | Some ta ->
                   let pos = int_of_string pos and neg = int_of_string neg in
                   expect_bool "C10" p.pstep what dst
                     (Array.init (1 lsl n) (fun i -> ta.((i lor pos) land lnot neg)))
                 | None -> stat "unresolved" 1)
              | "EVAL" :: a :: [] when kname = "mtbdd" ->
                (match get a, split_ws p.pres with
                 | Some ta, "vt" :: nn :: vals when int_of_string nn = n ->
                   check "C10";
                   let impl = Array.of_list (List.map (fun v -> term_code "mtbdd" v) vals) in
                   if impl <> ta then
                     fail p.pstep "C10" "prop"
                       (Printf.sprintf "eval disagrees with the node-by-node interpretation of h%d" (slot_of a))
                 | _ -> stat "unresolved" 1)
              | [ ("TT" | "TTI"); dst; nv; hex ] ->
                let nv = int_of_string nv in
                let tab = Z.of_string_base 16 (if starts_with hex "0x" then String.sub hex 2 (String.length hex - 2) else hex) in
                let exp = Array.init (1 lsl n) (fun idx -> if Z.testbit tab (idx land ((1 lsl nv) - 1)) then 1 else 0) in
                let exp = if kname = "zbdd" then Array.mapi (fun idx v -> if idx lsr nv <> 0 && false then 0 else v) exp else exp in
                expect_bool "C02" p.pstep what dst exp
              | [ "VAR"; dst; v ] -> expect_bool "C02" p.pstep what dst (vt_of_bfun n (Model.var_s (nat (int_of_string v))))
              | [ "NVAR"; dst; v ] ->
                expect_bool "C02" p.pstep what dst (vt_of_bfun n (Model.lift1 not (Model.var_s (nat (int_of_string v)))))
              | [ "CONST"; dst; b ] ->
                expect_bool "C02" p.pstep what dst (vt_of_bfun n (Model.const_s (b = "1")));
                (* ZBDD: t_edge is taut(0) of the chain the extracted ztaut_chain finds in the table *)
                (match !ztaut, List.assoc_opt (slot_of dst) ps.handles with
                 | t0 :: _, Some e when kname = "zbdd" && b = "1" && not (List.mem (slot_of dst) (List.concat_map (fun q -> if q.pstep > p.pstep then q.pdst else []) !pending)) ->
                   check "C09";
                   if not (Zfam.ref_eq t0 e.Model.eref) then
                     fail p.pstep "C09" "corr" (Printf.sprintf "t_edge is %s, taut(0) of the model chain %s" (show_edge e) (Zfam.show_ref t0))
                 | _ -> ())
              | [ ("NOT" | "NOTO"); dst; a ] ->
                (match get a with
                 | Some ta -> expect_bool "C02" p.pstep what dst (vt_of_bfun n (Model.lift1 not (bf ta)))
                 | None -> stat "unresolved" 1)
              | [ op; dst; a; b ] when bop_of op <> None ->
                (match get a, get b, bop_of op with
                 | Some ta, Some tb, Some o -> expect_bool "C02" p.pstep what dst (vt_of_bfun n (Model.lift2 o (bf ta) (bf tb)))
                 | _ -> stat "unresolved" 1)
              | [ "ITE"; dst; a; b; cc ] ->
                (match get a, get b, get cc with
                 | Some ta, Some tb, Some tc ->
                   expect_bool "C02" p.pstep what dst (vt_of_bfun n (Model.ite_s (bf ta) (bf tb) (bf tc)))
                 | _ -> stat "unresolved" 1)
              | [ (("EXISTS" | "FORALL" | "UNIQUE") as q); dst; a; mask ] ->
                (match get a with
                 | Some ta ->
                   let vs = List.map nat (bits_of_mask (int_of_string mask)) in
                   let f = match q with
                     | "EXISTS" -> Model.exists_s vs (bf ta)
                     | "FORALL" -> Model.forall_s vs (bf ta)
                     | _ -> Model.unique_s vs (bf ta) in
                   expect_bool "C04" p.pstep what dst (vt_of_bfun n f)
                 | None -> stat "unresolved" 1)
              | [ (("AEX" | "AFA" | "AUQ") as q); op; dst; a; b; mask ] ->
                (match get a, get b, bop_of op with
                 | Some ta, Some tb, Some o ->
                   let vs = List.map nat (bits_of_mask (int_of_string mask)) in
                   let inner = Model.lift2 o (bf ta) (bf tb) in
                   let f = match q with
                     | "AEX" -> Model.exists_s vs inner
                     | "AFA" -> Model.forall_s vs inner
                     | _ -> Model.unique_s vs inner in
                   expect_bool "C04" p.pstep what dst (vt_of_bfun n f)
                 | _ -> stat "unresolved" 1)
              | [ "RESTRICT"; dst; a; pos; neg ] ->
                (match get a with
                 | Some ta ->
                   let lits = List.map (fun v -> (nat v, true)) (bits_of_mask (int_of_string pos))
                              @ List.map (fun v -> (nat v, false)) (bits_of_mask (int_of_string neg)) in
                   expect_bool "C04" p.pstep what dst (vt_of_bfun n (Model.restrict_s lits (bf ta)))
                 | None -> stat "unresolved" 1)
              | [ "RESTRICTH"; dst; a; c ] ->
                (* the cube is given as a handle: its literals are read off its value table *)
                (match get a, get c with
                 | Some ta, Some tc ->
                   let sat = List.filter (fun i -> tc.(i) <> 0) (List.init (1 lsl n) (fun i -> i)) in
                   let pos = List.filter (fun v -> List.for_all (fun i -> (i lsr v) land 1 = 1) sat) (List.init n (fun v -> v)) in
                   let neg = List.filter (fun v -> List.for_all (fun i -> (i lsr v) land 1 = 0) sat) (List.init n (fun v -> v)) in
                   let is_cube = sat <> [] && List.length sat = 1 lsl (n - List.length pos - List.length neg) in
                   if is_cube then begin
                     let lits = List.map (fun v -> (nat v, true)) pos @ List.map (fun v -> (nat v, false)) neg in
                     expect_bool "C04" p.pstep what dst (vt_of_bfun n (Model.restrict_s lits (bf ta)))
                   end else stat "unresolved" 1
                 | _ -> stat "unresolved" 1)
              | [ "SUBST"; dst; a; sid ] ->
                (match get a, Hashtbl.find_opt subst_tts (int_of_string sid) with
                 | Some ta, Some reps when List.for_all (fun (_, t) -> Array.length t = 1 lsl n) reps ->
                   let sub = List.map (fun (v, t) -> (nat v, bf t)) reps in
                   expect_bool "C04" p.pstep what dst (vt_of_bfun n (Model.subst_s sub (bf ta)))
                 | _ -> stat "unresolved" 1)
              | [ "EVAL"; a ] ->
                (match get a, split_ws p.pres with
                 | Some ta, ("tt" :: nn :: hex :: dup) when int_of_string nn = n ->
                   check "C02";
                   if dup = [ "dup=0" ] then
                     fail p.pstep "C02" "prop" "eval with every variable listed twice (opposite value first) differs from eval with the last values only: the last value of a variable must count";
                   let tab = Z.of_string_base 16 hex in
                   let impl = Array.init (1 lsl n) (fun idx -> if Z.testbit tab idx then 1 else 0) in
                   if impl <> ta then
                     fail p.pstep "C02" "prop"
                       (Printf.sprintf "eval disagrees with the node-by-node interpretation: eval %s, interpretation %s"
                          (show_vt impl) (show_vt ta))
                 | _ -> stat "unresolved" 1)
              | [ "SATVALID"; a ] ->
                (* satisfiable() / valid() through the Rust API against the value table (package C12s) *)
                (match get a with
                 | Some ta ->
                   check "C02"; stat "c02_satvalid" 1;
                   let sat = Array.exists (fun x -> x <> 0) ta and valid = Array.for_all (fun x -> x = 1) ta in
                   let want = Printf.sprintf "sat=%d valid=%d" (if sat then 1 else 0) (if valid then 1 else 0) in
                   if p.pres <> want then
                     fail p.pstep "C02" "prop"
                       (Printf.sprintf "satisfiable/valid of h%d: %s, the value table %s says %s" (slot_of a) p.pres (show_vt ta) want)
                 | None -> stat "unresolved" 1)
              | [ "NC"; a ] ->
                (match List.assoc_opt (slot_of a) ps.handles, split_ws p.pres with
                 | Some e, [ "n"; k ] ->
                   check "C03";
                   let m = int_of_n (Model.count_reach ps.snap e) in
                   Buffer.add_string digest (Printf.sprintf "%d:nc%s;" p.pstep k);
                   if m <> int_of_string k then
                     fail p.pstep "C03" "prop"
                       (Printf.sprintf "node_count reports %s but the diagram of the handle has %d nodes" k m)
                   else if n <= 6 && (kname = "bdd" || kname = "bcdd" || kname = "zbdd") then (
                     (* C03, last clause: the reduced diagram of the handle's function under the snapshot's order,
                        built from the value table by the extracted [build_kind] (coq/DD/BuildCanon.v) in a table
                        of its own, has exactly node_count nodes; [canonical_count] = the same from [sem_edge] *)
                     match Hashtbl.find_opt tts (slot_of a) with
                     | None -> stat "unresolved" 1
                     | Some ta ->
                       check "C03"; stat "nc_canonical" 1;
                       let sn = ps.snap in
                       let f = Model.lvl_fun sn.Model.s_v2l (bf ta) in
                       (match Model.build_kind sn.Model.s_kind sn.Model.s_v2l sn.Model.s_l2v f,
                              Model.canonical_count sn e with
                        | Some (s', e'), Some cc ->
                          let built = int_of_n (Model.count_reach s' e') in
                          stat "nc_canonical_nodes" built;
                          if not (Model.bool_kind_ok_b sn) then
                            fail p.pstep "C03" "corr" "bool_kind_ok_b false on the snapshot (hypothesis of C03_node_count_canonical)"
                          else if not (Model.bool_kind_ok_b s') then
                            fail p.pstep "C03" "corr" "the diagram built from the value table is not well-formed"
                          else if built <> int_of_string k then
                            fail p.pstep "C03" "prop"
                              (Printf.sprintf "node_count reports %s but the reduced diagram of the handle's function %s under the current order has %d nodes"
                                 k (show_vt ta) built)
                          else if int_of_n cc <> built then
                            fail p.pstep "C03" "corr"
                              (Printf.sprintf "canonical_count (from sem_edge) = %d differs from the diagram built from the value table (%d nodes)"
                                 (int_of_n cc) built)
                          else (
                            (* the textbook count (no diagram is built): distinct subfunctions that depend on their
                               first level + distinct values (BCDD: up to complement, + the terminal; ZBDD: sub-families
                               with a non-empty then-part, + the reachable terminals), extracted [canon_size_bdd] /
                               [canon_size_bcdd] / [canon_size_zbdd] (theorems C03_node_count_canonical_size...) *)
                            stat "nc_canon_size" 1;
                            let csf = (match kname with "bdd" -> Model.canon_size_bdd | "bcdd" -> Model.canon_size_bcdd
                                                      | _ -> Model.canon_size_zbdd) in
                            let cs = int_of_n (csf (Model.nlevels sn) f) in
                            if cs <> int_of_string k then
                              fail p.pstep "C03" "prop"
                                (Printf.sprintf "node_count reports %s but the function %s has %d distinct essential subfunctions + values under the current order"
                                   k (show_vt ta) cs))
                        | _ -> fail p.pstep "C03" "corr" "build_kind / canonical_count undefined on a Boolean-kind snapshot"))
                 | _ -> stat "unresolved" 1)
              | [ "EQ"; a; b ] ->
                (match get a, get b, List.assoc_opt (slot_of a) ps.handles, List.assoc_opt (slot_of b) ps.handles with
                 | Some ta, Some tb, Some _, Some _ ->
                   check "C01";
                   let same = ta = tb in
                   let kv = List.filter_map (fun t -> match String.split_on_char '=' t with [ k; v ] -> Some (k, v) | _ -> None) (split_ws p.pres) in
                   let g k = try List.assoc k kv with Not_found -> "?" in
                   let eq = g "eq" = "1" in
                   let cmp_eq = g "cmp" = "Equal" in
                   let anti = (match g "cmp", g "cmprev" with
                       | "Equal", "Equal" | "Less", "Greater" | "Greater", "Less" -> true | _ -> false) in
                   if eq <> same then
                     fail p.pstep "C01" "prop" (Printf.sprintf "h%d == h%d is %b but tables equal is %b" (slot_of a) (slot_of b) eq same)
                   else if cmp_eq <> same || not anti then
                     fail p.pstep "C01" "prop" (Printf.sprintf "Ord inconsistent: %s" p.pres)
                   else if same && g "hasheq" <> "1" then
                     fail p.pstep "C01" "prop" "equal handles hash differently"
                 | _ -> stat "unresolved" 1)
              | [ "COF"; dt; de; a ] ->
                (match get a, (if List.mem (slot_of a) p.pdst then None else List.assoc_opt (slot_of a) ps.handles) with
                 | Some ta, Some ea ->
                   check "C02";
                   let is_term = (match ea.Model.eref with Model.RT _ -> true | _ -> false) in
                   if starts_with p.pres "none" then (
                     if not is_term then fail p.pstep "C02" "prop" "cofactors returned None for an inner node")
                   else (
                     if is_term then fail p.pstep "C02" "prop" "cofactors returned Some for a terminal"
                     else (
                       if not (starts_with p.pres "some single_agree=1") then
                         fail p.pstep "C02" "prop" "cofactor_true/false disagree with cofactors";
                       (* top variable = variable of the root's level *)
                       let lvl = (match ea.Model.eref with
                           | Model.RN id -> (match Model.PositiveMap.find id ps.snap.Model.s_nodes with
                               | Some nd -> int_of_nat nd.Model.nlevel | None -> 0)
                           | _ -> 0) in
                       let v = ps.l2v.(lvl) in
                       let f = bf ta in
                       let et, ee =
                         if kname = "zbdd" then
                           (* subset1 / subset0 in the reduced-domain reading: sets containing v with v removed *)
                           ( vt_of_bfun n (fun a -> (not (a (nat v))) && Model.cof f (nat v) true a),
                             vt_of_bfun n (fun a -> (not (a (nat v))) && Model.cof f (nat v) false a) )
                         else (vt_of_bfun n (Model.cof f (nat v) true), vt_of_bfun n (Model.cof f (nat v) false)) in
                       (match getd dt, getd de with
                        | Some gt, Some ge ->
                          if gt <> et || ge <> ee then
                            fail p.pstep "C02" "prop"
                              (Printf.sprintf "cofactors w.r.t. var %d: got (%s,%s) expected (%s,%s)" v
                                 (show_vt gt) (show_vt ge) (show_vt et) (show_vt ee))
                        | _ -> stat "unresolved" 1)))
                 | _ -> stat "unresolved" 1)
              | [ "SAT"; a; vars; ty ] ->
                (match get a with
                 | Some ta ->
                   check "C12";
                   let vars = int_of_string vars in
                   let ones = Array.fold_left (fun acc v -> acc + v) 0 ta in
                   (* count over [vars] variables: the table is over n variables *)
                   let exact =
                     if vars >= n then Z.mul (Z.of_int ones) (Z.pow (Z.of_int 2) (vars - n))
                     else Z.of_int (-1) in
                   if Z.sign exact >= 0 then (
                     let got = (match split_ws p.pres with [ _; v ] -> v | _ -> "?") in
                     let expect =
                       match ty with
                       (* the marker T::MAX when 2^vars is not representable; the count 0 of the
                          unsatisfiable function stays 0 in every type (coq/DD/SatCount.v, [saturate]) *)
                       | ("u64" | "u128") when Z.sign exact = 0 -> "0"
                       (* ZBDD: the path count is shifted by vars - levels: exact while the count itself fits *)
                       | "u64" when kname = "zbdd" -> if Z.numbits exact > 64 then "18446744073709551615" else Z.to_string exact
                       | "u128" when kname = "zbdd" -> if Z.numbits exact > 128 then "340282366920938463463374607431768211455" else Z.to_string exact
                       | "u64" -> if Z.numbits (Z.pow (Z.of_int 2) vars) > 64 then "18446744073709551615" else Z.to_string exact
                       | "u128" -> if Z.numbits (Z.pow (Z.of_int 2) vars) > 128 then "340282366920938463463374607431768211455" else Z.to_string exact
                       | "nat" | "nat_fresh" -> Z.to_string exact
                       | _ -> "" in
                     Buffer.add_string digest (Printf.sprintf "%d:sat%s;" p.pstep got);
                     if expect <> "" && got <> expect then
                       fail p.pstep "C12" "prop" (Printf.sprintf "sat_count(%d) as %s = %s, exact count %s" vars ty got expect)
                     else if ty = "f64" then (
                       let bits = Int64.of_string ("0x" ^ got) in
                       let fv = Int64.float_of_bits bits in
                       let ex = Z.to_float exact in
                       if n <= 53 then (
                         (* at most 53 levels (theorem C12_sat_f64, coq/DD/SatF64Proofs.v): the result is the correctly
                            rounded exact count for every vars: the count itself below 2^1024 (it is ones * 2^(vars-n)
                            with ones <= 2^n, hence representable), +inf from there on *)
                         stat "c12_f64_exact_checked" 1;
                         let want = if Z.numbits exact > 1024 then infinity else ex in
                         if fv <> want then
                           fail p.pstep "C12" "prop" (Printf.sprintf "sat_count(%d) as f64 = %h, correctly rounded exact count %h (%s)" vars fv want (Z.to_string exact))
                         else (
                           (* the extracted model of sat_count::<F64> (coq/DD/SatCountF64.v: the counting recursion of
                              DD/SatCount.v with its in-call cache over Flocq's binary64, MIN_EXP scaling included) run
                              on the snapshot must return the same bits, and so must the extracted specification
                              f64_of_N(exact count); with at most 53 levels the value does not depend on the shape of
                              the diagram, so a reordering between the query and the snapshot does not matter *)
                           match List.assoc_opt (slot_of a) ps.handles with
                           | Some e when not (List.mem (slot_of a) p.pdst) ->
                             stat "c12_f64_model_replayed" 1;
                             let hex z = Z.format "%016x" (z_of_mz z) in
                             let spec = hex (Model.f64_count_bits (n_of_z exact)) in
                             (match Model.sat_f64_cached_bits true ps.snap (nat vars) e with
                              | Some mb ->
                                if hex mb <> got then
                                  fail p.pstep "C12" "corr" (Printf.sprintf "sat_count(%d) as f64 = %s, the extracted model computes %s" vars got (hex mb))
                                else if spec <> got then
                                  fail p.pstep "C12" "corr" (Printf.sprintf "sat_count(%d) as f64 = %s, extracted f64_of_N(exact count) = %s" vars got spec)
                              | None -> fail p.pstep "C12" "corr" "the extracted model of sat_count::<F64> fails on the snapshot")
                           | _ -> ()))
                       else if Z.numbits exact <= 53 && fv <> ex then
                         fail p.pstep "C12" "prop" (Printf.sprintf "sat_count(%d) as f64 = %h, exact %s" vars fv (Z.to_string exact))
                       else if abs_float (fv -. ex) > 1e-9 *. abs_float ex then
                         fail p.pstep "C12" "prop" (Printf.sprintf "sat_count(%d) as f64 = %h, exact %s" vars fv (Z.to_string exact))))
                 | None -> stat "unresolved" 1)
              (* TDD (package TDDx): every T3 operation against the extracted fixed tables of coq/DD/Tdd.v
                 ([k_not], [table], [ite3]) applied pointwise to the operands' value tables over all 3^n
                 ternary assignments (index digit v = child index at variable v: 0 true, 1 unknown, 2 false;
                 values 0 F, 1 U, 2 T); the result tables enter the case digest (C06, C20) *)
              | [ "T3CONST"; dst; cv ] when kname = "tdd" ->
                expect_bool "C11" p.pstep what dst (Array.make (pow3 n) (match cv with "f" -> 0 | "u" -> 1 | _ -> 2))
              | [ "T3VAR"; dst; v ] when kname = "tdd" ->
                let v = int_of_string v in
                expect_bool "C11" p.pstep what dst (Array.init (pow3 n) (fun idx -> 2 - (idx / pow3 v mod 3)))
              | [ "T3NOT"; dst; a ] when kname = "tdd" ->
                (match get a with
                 | Some ta -> expect_bool "C11" p.pstep what dst (Array.map (fun x -> t3_code (Model.t3_not (t3_tri x))) ta)
                 | None -> stat "unresolved" 1)
              | [ op; dst; a; b ] when kname = "tdd" && t3_bop_of op <> None ->
                (match get a, get b, t3_bop_of op with
                 | Some ta, Some tb, Some o ->
                   expect_bool "C11" p.pstep what dst
                     (Array.init (pow3 n) (fun i -> t3_code (Model.t3_bin o (t3_tri ta.(i)) (t3_tri tb.(i)))))
                 | _ -> stat "unresolved" 1)
              | [ "T3ITE"; dst; a; b; cc ] when kname = "tdd" ->
                (match get a, get b, get cc with
                 | Some ta, Some tb, Some tc ->
                   expect_bool "C11" p.pstep what dst
                     (Array.init (pow3 n) (fun i -> t3_code (Model.t3_ite (t3_tri ta.(i)) (t3_tri tb.(i)) (t3_tri tc.(i)))))
                 | _ -> stat "unresolved" 1)
              | [ "T3COF"; dt; du; de; a ] when kname = "tdd" ->
                (match get a, (if List.mem (slot_of a) p.pdst then None else List.assoc_opt (slot_of a) ps.handles) with
                 | Some ta, Some ea ->
                   check "C11";
                   (match ea.Model.eref with
                    | Model.RT _ -> if not (starts_with p.pres "none") then fail p.pstep "C11" "prop" "cofactors returned Some for a terminal"
                    | Model.RN id ->
                      if starts_with p.pres "none" then fail p.pstep "C11" "prop" "cofactors returned None for an inner node"
                      else (
                        let lvl = (match Model.PositiveMap.find id ps.snap.Model.s_nodes with
                            | Some nd -> int_of_nat nd.Model.nlevel | None -> 0) in
                        let v = ps.l2v.(lvl) in
                        let w = pow3 v in
                        List.iteri (fun k d ->
                            match getd d with
                            | Some got ->
                              let exp = Array.init (pow3 n) (fun idx -> ta.(idx - (idx / w mod 3) * w + k * w)) in
                              Buffer.add_string digest (Printf.sprintf "%d:cof%d%s;" p.pstep k (show_vt got));
                              if got <> exp then
                                fail p.pstep "C11" "prop"
                                  (Printf.sprintf "%s: cofactor %d w.r.t. the top variable %d is %s, expected %s" what k v (show_vt got) (show_vt exp))
                            | None -> stat "unresolved" 1)
                          [ dt; du; de ]))
                 | _ -> stat "unresolved" 1)
              (* TDD: the implementation's eval over all 3^n ternary assignments = the extracted interpreter on the snapshot *)
              | [ "T3EVAL"; a ] when List.mem "C11" !props ->
                (match split_ws p.pres, get a with
                 | "vt3" :: _ :: vals, Some tab when List.length vals = Array.length tab ->
                   check "C11"; stat "c11_tdd_evals" 1;
                   Buffer.add_string digest (Printf.sprintf "%d:ev%s;" p.pstep (String.concat "" vals));
                   if List.map int_of_string vals <> Array.to_list tab then
                     fail p.pstep "C11" "prop"
                       (Printf.sprintf "%s: eval over all ternary assignments gives [%s], the diagram denotes %s" what
                          (String.concat "" vals) (show_vt tab))
                 | _ -> stat "unresolved" 1)
              | [ "T3EVAL"; a ] ->
                (match split_ws p.pres, get a with
                 | "vt3" :: _ :: vals, Some tab when List.length vals = Array.length tab ->
                   check "C08"; stat "c08_tdd_evals" 1;
                   if List.map int_of_string vals <> Array.to_list tab then
                     fail p.pstep "C08" "prop"
                       (Printf.sprintf "%s: eval over all ternary assignments gives [%s], the diagram denotes %s" what
                          (String.concat "" vals) (show_vt tab))
                 | _ -> stat "unresolved" 1)
              | ("PICK" | "PICKDD" | "PICKSET" | "PICKUNI") :: _ -> Pick.check ~kname ~n ~ps ~get ~getd ~fail ~check p.pstep t p.pres
              | (("SINGLETON" | "EMPTY" | "BASE" | "SUBSET0" | "SUBSET1" | "CHANGE" | "UNION" | "INTSEC" | "DIFF" | "MAKENODE") as op) :: dst :: rest ->
                (* operand families as captured when the op was issued (the destination may alias an operand);
                   only valid if no variables were added in between.  Expected family: extracted spec layer
                   (DD/FamSpec.v); the extracted model (DD/ZbddOps.v) is replayed on the operands' edges when
                   their handles still denote the captured families (ocaml/zfam.ml) *)
                let opnd s =
                  let sl = slot_of s in
                  let cur = Hashtbl.find_opt fams sl in
                  let f =
                    if List.mem_assoc sl p.pcapf && p.pcap_n = n then Some (List.assoc sl p.pcapf)
                    else if List.mem sl p.pdst then None
                    else cur in
                  match f with
                  | None -> None
                  | Some f ->
                    let e = if cur = Some f then List.assoc_opt sl ps.handles else None in
                    Some { Zfam.ofam = f; Zfam.oedge = e } in
                let dstv =
                  match Hashtbl.find_opt fams (slot_of dst) with
                  | Some g -> Some { Zfam.ofam = g; Zfam.oedge = List.assoc_opt (slot_of dst) ps.handles }
                  | None -> None in
                Zfam.check_op ~ps ~zok:!zok ~opnd ~dst:dstv ~fail ~check ~digest p.pstep what op rest
              | _ -> ()
            with Bad (prop, kind, msg) -> fail p.pstep prop kind msg)
          (List.rev !pending);
        pending := []
      in

      (* ------------------------------------------------------------------ *)
      let process_snapshot (step : int) (body : string) =
        stat "snapshots" 1;
        let ps = parse_snapshot kname body in
        let s = ps.snap in
        let n = Array.length ps.l2v in
        stat "snap_nodes" ps.nnodes;
        (* C03: structure *)
        check "C03";
        if not (Model.wf_full_b s) then (
          let why =
            if not (Model.terms_kind_b s) then "terminal set does not fit the diagram kind"
            else if not (Model.perm_inverse_b s.Model.s_v2l s.Model.s_l2v) then "var_to_level / level_to_var are not mutually inverse permutations"
            else if not (List.for_all (fun (_, nd) -> Model.node_ok_b s nd) (Model.PositiveMap.elements s.Model.s_nodes)) then (
              let id, nd = List.find (fun (_, nd) -> not (Model.node_ok_b s nd)) (Model.PositiveMap.elements s.Model.s_nodes) in
              Printf.sprintf "node n%s (listed level %d, stored level %d, children %s) is not ordered/reduced/consistent"
                (Z.to_string (Z.pred (z_of_pos id))) (int_of_nat nd.Model.nlevel) (int_of_nat nd.Model.nstored)
                (String.concat " " (List.map show_edge nd.Model.nchildren)))
            else if not (Model.unique_nodes_b (Model.PositiveMap.elements s.Model.s_nodes)) then "two stored nodes of one level have identical children"
            else if not (Model.terms_unique_b s.Model.s_terms) then "duplicate terminal"
            else "a handle refers to a missing node or carries a tag" in
          fail step "C03" "prop" ("wf_b false: " ^ why);
          if !order_req <> None || !lswap_pending then fail step "C08" "prop" ("after reordering, wf_b false: " ^ why));
        (* TDD: the hypothesis TdOK of the table-level theorems (coq/DD/ApplyTddBase.v .. ApplyTddTop.v, coq/DD/TddRc.v; the
           C01_tdd / C03_tdd / C05_tdd / C06_tdd theorems of coq/Props): wf_b + kind TDD + exactly the terminals False, Unknown, True *)
        if kname = "tdd" then (
          check "C03"; stat "tdd_ok_checked" 1;
          let okb = Model.td_ok_b s in
          if Model.wf_full_b s && not okb then
            fail step "C03" "corr" "td_ok_b false: the terminals of the TDD manager are not exactly False, Unknown, True (hypothesis TdOK of the TDD theorems)";
          (* the invariant spelled out for ternary nodes (coq/DD/TddAudit.v [td_wf3_b]; theorem C03_tdd_wf3_b_spec:
             td_wf3_b = td_ok_b) and the ternary reference-count audit (theorem C05_tdd_rc_b_exact: td_rc_b = rc_exact_b) *)
          if Model.td_wf3_b s <> okb then
            fail step "C03" "corr" (Printf.sprintf "td_wf3_b = %b but td_ok_b = %b on the same snapshot (theorem C03_tdd_wf3_b_spec)" (not okb) okb);
          if ps.nnodes <= 400 then (
            check "C05"; stat "tdd_rc3_checked" 1;
            let generic = (Model.rc_first_bad s [] = None) in
            if Model.td_rc_b s <> generic then
              fail step "C05" "corr" (Printf.sprintf "td_rc_b = %b but the generic audit rc_exact_b = %b (theorem C05_tdd_rc_b_exact)" (not generic) generic)));
        if ps.inner <> ps.listed then
          fail step "C03" "prop" (Printf.sprintf "num_inner_nodes = %d but the level views list %d nodes" ps.inner ps.listed);
        if ps.levels <> n then fail step "C16" "prop" "num_levels differs from the number of variables";
        (* C05: reference counts *)
        check "C05";
        let extra = Zchain.extra_edges kname ps in
        (match Model.rc_first_bad s extra with
         | None -> ()
         | Some ((id, got), exp) ->
           fail step "C05" "prop"
             (Printf.sprintf "reference count of node n%s is %s, but %s handles/parent edges point to it"
                (Z.to_string (Z.pred (z_of_pos id))) (string_of_n got) (string_of_n exp)));
        if !gc_pending then (
          check "C05";
          if not (Model.no_dead_b s) then fail step "C05" "prop" "a node without any reference survived gc()";
          (* a manager without handles holds no inner nodes, except the ZBDD tautology chain (one node per level) *)
          let expect0 = if kname = "zbdd" then n else 0 in
          if !dropall_gc && ps.handles = [] && ps.inner <> expect0 then
            fail step "C05" "prop"
              (Printf.sprintf "after dropping all handles and gc() %d inner nodes remain (a fresh manager with these variables has %d)" ps.inner expect0);
          (* MTBDD: terminals are reference counted as well: a collection frees exactly the terminals that
             neither a handle nor a stored node refers to *)
          if kname = "mtbdd" || kname = "mtbddf" then (
            let used : (string, unit) Hashtbl.t = Hashtbl.create 16 in
            let mark (e : Model.edge) = match e.Model.eref with Model.RT t -> Hashtbl.replace used (string_of_n t) () | _ -> () in
            List.iter (fun (_, e) -> mark e) ps.handles;
            List.iter (fun (_, nd) -> List.iter mark nd.Model.nchildren) (Model.PositiveMap.elements s.Model.s_nodes);
            List.iter (fun (t, _) ->
                if not (Hashtbl.mem used (string_of_n t)) then
                  fail step "C05" "prop" (Printf.sprintf "terminal t%s without any reference survived gc()" (string_of_n t)))
              s.Model.s_terms;
            if ps.nterms <> List.length s.Model.s_terms then
              fail step "C05" "prop" (Printf.sprintf "num_terminals() = %d but %d terminals are listed" ps.nterms (List.length s.Model.s_terms));
            if !dropall_gc && ps.handles = [] && ps.nterms <> 0 then
              fail step "C05" "prop" (Printf.sprintf "after dropping all handles and gc() %d terminals remain" ps.nterms));
          gc_pending := false; dropall_gc := false);
        if !init_inner < 0 && ps.handles = [] then init_inner := ps.inner;
        (* value tables of all handles *)
        let old_tts = Hashtbl.copy tts in
        let old_n = !tt_n in
        Hashtbl.reset tts; Hashtbl.reset fams;
        List.iter
          (fun (slot, e) ->
            match value_table ps e with
            | Some t -> Hashtbl.replace tts slot t
            | None -> fail step "C03" "prop" (Printf.sprintf "handle h%d: interpretation undefined (dangling edge)" slot))
          ps.handles;
        if kname = "zbdd" then
          List.iter (fun (slot, e) -> match family ps e with Some f -> Hashtbl.replace fams slot f | None -> ()) ps.handles;
        (* TDD: the extracted value table over the VARIABLE assignments (coq/DD/TddAudit.v [td_vtable], the object of
           theorem C01_tdd_canon_vtable) must be the table computed above *)
        if kname = "tdd" && n <= 5 then
          List.iter (fun (slot, e) ->
              match Hashtbl.find_opt tts slot with
              | None -> ()
              | Some t ->
                stat "tdd_vtables" 1;
                let vt = List.map (function Some v -> t3_code v | None -> -1) (Model.td_vtable s e.Model.eref) in
                if vt <> Array.to_list t then
                  fail step "C01" "corr" (Printf.sprintf "handle h%d: extracted td_vtable [%s] differs from the interpretation %s"
                                            slot (String.concat "" (List.map string_of_int vt)) (show_vt t)))
            ps.handles;
        (* C09: the hypothesis of the model theorems (well-formed ZBDD table with both terminals) *)
        if kname = "zbdd" && List.mem "C09" !props then (
          zok := Model.zbdd_ok_b s;
          if not !zok then fail step "C09" "corr" "zbdd_ok_b false on a ZBDD snapshot (hypothesis of the C09 theorems)"
          else (
            check "C09";
            match Zfam.taut_chain ps with
            | Ok ch -> ztaut := ch
            | Error m -> ztaut := []; fail step "C09" "prop" ("tautology chain: " ^ m)));
        tt_n := n;
        (* persistence: a handle that was not reassigned denotes the same function *)
        Hashtbl.iter
          (fun slot oldt ->
            match Hashtbl.find_opt tts slot with
            | Some newt ->
              let oldt' = if old_n < n then extend_vt kname old_n n oldt else oldt in
              if old_n <= n && oldt' <> newt then (
                let prop = if !order_req <> None || !lswap_pending || ps.reorder <> !last_gc && false then "C08" else "C05" in
                let prop = if old_n < n then "C16" else prop in
                fail step prop "prop"
                  (Printf.sprintf "handle h%d changed its function: before %s, now %s" slot (show_vt oldt') (show_vt newt)))
            | None -> ())
          old_tts;
        (* C09: Boolean view consistent with the family view *)
        if kname = "zbdd" then
          Hashtbl.iter
            (fun slot f ->
              match Hashtbl.find_opt tts slot with
              | Some t ->
                check "C09";
                let exp = Array.init (1 lsl n) (fun idx -> if List.mem idx f then 1 else 0) in
                if exp <> t then fail step "C09" "prop" (Printf.sprintf "h%d: Boolean view %s differs from family view" slot (show_vt t))
                else if List.mem "C09" !props && not (Zfam.bool_view_ok ps f t) then
                  fail step "C09" "corr" (Printf.sprintf "h%d: extracted fam_bool differs from the Boolean view %s" slot (show_vt t))
              | None -> ())
            fams;
        (* C01: canonicity over all handle pairs (grouped by table) *)
        check "C01";
        let by_tt : (vt, int * Model.edge) Hashtbl.t = Hashtbl.create 64 in
        let by_edge : (string, int * vt) Hashtbl.t = Hashtbl.create 64 in
        List.iter
          (fun (slot, e) ->
            match Hashtbl.find_opt tts slot with
            | None -> ()
            | Some t ->
              (match Hashtbl.find_opt by_tt t with
               | Some (s0, e0) ->
                 if not (Model.edge_eqb e0 e) then
                   fail step "C01" "prop"
                     (Printf.sprintf "handles h%d (%s) and h%d (%s) denote the same function %s but are different edges"
                        s0 (show_edge e0) slot (show_edge e) (show_vt t))
               | None -> Hashtbl.add by_tt t (slot, e));
              let k = show_edge e in
              (match Hashtbl.find_opt by_edge k with
               | Some (s0, t0) -> if t0 <> t then fail step "C01" "prop" (Printf.sprintf "h%d and h%d share edge %s but differ" s0 slot k)
               | None -> Hashtbl.add by_edge k (slot, t)))
          ps.handles;
        stat "handle_pairs" (let h = List.length ps.handles in h * (h - 1) / 2);
        stat "distinct_functions" (Hashtbl.length by_tt);
        (* C08: requested order *)
        (match !order_req with
         | Some req ->
           check "C08";
           (* Manager::reorder bumps gc_count and reorder_count: a reordering that moved levels frees and re-uses
              node ids, and whatever is keyed by node ids (sat-count caches) is validated against these counters *)
           (match !prev_counts with
            | Some (pgc, pro) when Array.length !prev_v2l = n && !prev_v2l <> ps.v2l && (ps.gc <= pgc || ps.reorder <= pro) ->
              fail step "C08" "prop"
                (Printf.sprintf "a reordering that moved levels left gc_count %d -> %d / reorder_count %d -> %d (both must increase)"
                   pgc ps.gc pro ps.reorder)
            | _ -> ());
           let rec sorted = function
             | a :: (b :: _ as r) -> ps.v2l.(a) < ps.v2l.(b) && sorted r
             | _ -> true in
           if not (sorted req) then
             fail step "C08" "prop" (Printf.sprintf "requested order [%s] not established: var_to_level = [%s]"
                                       (String.concat " " (List.map string_of_int req))
                                       (String.concat " " (List.map string_of_int (Array.to_list ps.v2l))))
           else if Array.length !prev_v2l = n then (
             (* minimal number of adjacent swaps = minimal number of inversions w.r.t. the previous order *)
             let inv = Order.inversions !prev_v2l ps.v2l in
             let best = Order.min_inversions !prev_v2l req in
             if inv <> best then
               fail step "C08" "prop"
                 (Printf.sprintf "unnamed variables not placed with the minimal number of adjacent swaps: %d swaps needed, optimum %d" inv best));
           order_req := None
         | None -> ());
        prev_v2l := ps.v2l;
        prev_counts := Some (ps.gc, ps.reorder);
        if !digest_order then
          Buffer.add_string digest
            (Printf.sprintf "%d:o%s;" step (String.concat "," (List.map string_of_int (Array.to_list ps.v2l))));
        last_gc := ps.gc;
        (* C09: a snapshot, add_vars(k), a snapshot: replay add_vars on the extracted model *)
        (* C08: a snapshot, level_down(i), a snapshot: replay the swap on the extracted level_swap (BDD, MTBDD) *)
        (match !since, !prev_ps with
         | [ ld ], Some pp when (kname = "bdd" || kname = "mtbdd" || kname = "bcdd" || kname = "tdd") && List.mem "C08" !props && starts_with ld "LEVELDOWN " ->
           check "C08";
           (match Lswap.check ~kname pp ps (int_of_string (String.sub ld 10 (String.length ld - 10))) with
            | Ok () -> ()
            | Error (kind, m) -> fail step "C08" kind m)
         (* ZBDD: the same with the tautology chain dropped before and rebuilt after (Mgr/LevelSwapZ.v) *)
         | [ ld ], Some pp when kname = "zbdd" && List.mem "C08" !props && starts_with ld "LEVELDOWN " ->
           check "C08";
           (match Lswap.check_z pp ps (int_of_string (String.sub ld 10 (String.length ld - 10))) with
            | Ok () -> ()
            | Error (kind, m) -> fail step "C08" kind m)
         | [ od ], Some pp when kname = "zbdd" && List.mem "C08" !props && starts_with od "ORDER "
                                && (pp.inner < 65536 || param_int c "threads" 1 = 1) ->
           (match Lswap.check_order_z pp ps (List.map int_of_string (List.tl (split_ws od))) with
            | None -> ()
            | Some (Ok ()) -> check "C08"
            | Some (Error (kind, m)) -> check "C08"; fail step "C08" kind m)
         (* a snapshot, set_var_order(_seq), a snapshot: replay on the extracted set_var_order_model; the
            concurrent variant (several workers and >= 65536 nodes) performs the swaps in no fixed order *)
         | [ od ], Some pp when (kname = "bdd" || kname = "mtbdd" || kname = "bcdd" || kname = "tdd") && List.mem "C08" !props && starts_with od "ORDER "
                                && (pp.inner < 65536 || param_int c "threads" 1 = 1) ->
           (match Lswap.check_order ~kname pp ps (List.map int_of_string (List.tl (split_ws od))) with
            | None -> ()
            | Some (Ok ()) -> check "C08"
            | Some (Error (kind, m)) -> check "C08"; fail step "C08" kind m)
         | _ -> ());
        lswap_pending := false;
        (match !since, !prev_ps with
         | [ vk ], Some pp when kname = "zbdd" && !zok && List.mem "C09" !props && starts_with vk "VARS " ->
           check "C09";
           stat "c09_addvars_replayed" 1;
           (match Zfam.add_vars_check pp ps (int_of_string (String.sub vk 5 (String.length vk - 5))) with
            | Some m -> fail step "C09" "prop" m
            | None -> ())
         | _ -> ());
        (* C05 (terminals): replay of the extracted terminal-manager model (ocaml/tmgr.ml, coq/Mgr/Terminals.v) *)
        if (kname = "mtbdd" || kname = "mtbddf") && List.mem "C05" !props then (
          let tcap = param_int c "tcap" 4096 and gcall = (param c "gcall" = Some "1") in
          check "C05"; stat "c05t_inv" 1;
          (match Tmgr.check_inv ~tcap ps with Some m -> fail step "C05" "corr" m | None -> ());
          (match !tm_ops, !prev_ps with
           | [ ([ "GC" ], r) ], Some pp when not (starts_with r "err") ->
             stat "c05t_gc_replayed" 1;
             (match Tmgr.check_gc ~tcap ~gcall ~res:r pp ps with Some (k, m) -> fail step "C05" k m | None -> ())
           | [ ([ "CONSTN"; dst; v ], r) ], Some pp when (not (starts_with r "err")) || starts_with r "err oom" ->
             stat "c05t_get_replayed" 1;
             (match Tmgr.check_get ~tcap ~kname ~gcall ~oom:(starts_with r "err oom") pp ps (slot_of dst) v with
              | Some (k, m) -> fail step "C05" k m
              | None -> ())
           | _ -> ()));
        (* TDD (package TDDx): a snapshot, one client call, a snapshot: replay of the TDD manager state machine
           (coq/Mgr/TddHist.v, ocaml/tddh.ml); reported under the first of C01 / C03 / C05 / C06 / C11 the check asks for *)
        if kname = "tdd" && ps.nnodes <= 2000 then (
          match !tm_ops, !prev_ps with
          | [ (toks, r) ], Some pp ->
            let prop = (try List.find (fun p -> List.mem p !props) [ "C01"; "C03"; "C05"; "C06"; "C11" ] with Not_found -> "C03") in
            (match Tddh.check ~pp ~ps toks r with
             | `Skip -> ()
             | `Ok -> check prop; stat "tddh_replayed" 1; if toks = [ "GC" ] then stat "tddh_gc_replayed" 1
             | `Bad (kind, m) -> check prop; fail step prop kind m)
          | _ -> ());
        tm_ops := [];
        since := []; prev_ps := Some ps;
        resolve_pending step ps
      in

      (* ------------------------------------------------------------------ *)
      List.iteri
        (fun i l ->
          if l = "HANG" then fail i (match !props with p :: _ -> p | [] -> "C03") "prop" "implementation did not terminate (watchdog)"
          else if starts_with l "PANIC" || starts_with l "CRASH" then
            fail i (match !props with p :: _ -> p | [] -> "C03") "prop" ("implementation panicked/aborted: " ^ l)
          else
            let ops, res = split_arrow l in
            let toks = split_ws ops in
            stat ("op_" ^ List.hd toks) 1;
            if toks <> [ "SNAP" ] then tm_ops := (toks, res) :: !tm_ops;
            if starts_with res "err skip" || starts_with res "err unsupported" then stat "skipped_ops" 1
            else if starts_with res "err oom" then (
              stat "oom" 1;
              (* destination slot keeps whatever it had: nothing to do *)
              ())
            else if starts_with res "err" then fail i "C03" "corr" ("harness error: " ^ l)
            else (
              (* "no dead node after gc" can only be asserted if the snapshot directly follows the gc *)
              (match toks with [ "SNAP" ] | [ "GC" ] | [ "GCR" ] -> () | _ -> gc_pending := false; dropall_gc := !dropall_gc && false);
              (match toks with [ "SNAP" ] | "VARS" :: _ | "LEVELDOWN" :: _ | "ORDER" :: _ | "ORDERSEQ" :: _ -> () | _ -> since := "other" :: !since);
              match toks with
              | [ "SNAP" ] -> (try process_snapshot i res with Failure m -> fail i "C03" "corr" ("driver: " ^ m))
              (* C07: block markers, the event trace (replayed by ocaml/c07_main.ml) and a collection under
                 the shared lock inside a parallel block carry no obligations here *)
              | ("PAR" | "ENDPAR" | "EV" | "EVSTAT" | "PGC") :: _ -> ()
              | "BIGORDER" :: _pairs :: _threads :: _seed :: req ->
                (* C08 on a manager large enough for the concurrent bubble sort: the requested relative
                   order holds, the number of adjacent swaps is minimal, sampled evaluations unchanged *)
                check "C08";
                let req = List.map int_of_string req in
                let rt = split_ws res in
                let rec after_v2l = function "v2l" :: r -> List.map int_of_string r | _ :: r -> after_v2l r | [] -> [] in
                let v2l = Array.of_list (after_v2l rt) in
                let n = Array.length v2l in
                let kvi k = List.find_map (fun t -> match String.split_on_char '=' t with
                    | [ k'; v ] when k' = k -> int_of_string_opt v | _ -> None) rt in
                if not (List.mem "evals_ok=1" rt) then
                  fail i "C08" "prop" "set_var_order (concurrent bubble sort) changed the function of a live handle (sampled evaluations differ)"
                else if List.mem "rebuilt=0" rt then
                  fail i "C08" "prop" "after set_var_order (concurrent bubble sort) the construction of the same function arrives at a different handle than the live one (canonicity lost: nodes are not where their level says)"
                else if kname <> "zbdd" && (match kvi "inner_after_gc", kvi "nodes_after" with
                    | Some a, Some b -> a <> b - (if kname = "bcdd" then 1 else 2) | _ -> false) then
                  fail i "C08" "prop" (Printf.sprintf "after set_var_order and a collection the manager stores %d inner nodes, the only live handle has %d nodes (incl. terminals)"
                                         (Option.get (kvi "inner_after_gc")) (Option.get (kvi "nodes_after")))
                else if n = 0 || List.exists (fun v -> v >= n) req then fail i "C08" "corr" ("cannot read: " ^ l)
                else (
                  let rec sorted = function a :: (b :: _ as r) -> v2l.(a) < v2l.(b) && sorted r | _ -> true in
                  let ident = Array.init n (fun x -> x) in
                  let perm_ok = (let seen = Array.make n false in Array.for_all (fun l -> l >= 0 && l < n && (not seen.(l)) && (seen.(l) <- true; true)) v2l) in
                  if not perm_ok then fail i "C08" "prop" "var_to_level is not a permutation after set_var_order"
                  else if not (sorted req) then
                    fail i "C08" "prop" (Printf.sprintf "requested order [%s] not established (concurrent bubble sort): levels of these variables are [%s]"
                                           (String.concat " " (List.map string_of_int req))
                                           (String.concat " " (List.map (fun v -> string_of_int v2l.(v)) req)))
                  else if Order.inversions ident v2l <> Order.min_inversions ident req then
                    fail i "C08" "prop" (Printf.sprintf "set_var_order used %d adjacent swaps (inversions), the minimum is %d"
                                           (Order.inversions ident v2l) (Order.min_inversions ident req)))
              | "VARS" :: k :: _ -> nvars := !nvars + int_of_string k; since := ("VARS " ^ k) :: !since
              | [ "DROP"; a ] | [ "DROPT"; a ] -> invalidate (slot_of a)
              | [ "DROPALL" ] -> Hashtbl.reset tts; Hashtbl.reset fams; dropall_gc := true
              | [ "GC" ] | [ "GCR" ] -> gc_pending := true      (* GCR: a collection from inside a reorder() closure *)
              | [ "SESSION"; _ ] -> ()
              | "EXPORT" :: _ -> ()      (* no handle changes; the reference counts are audited on the next snapshot *)
              | [ "TFILL" ] ->
                (* terminal capacity probe (MTBDD): with every created constant alive, get_edge may fail only
                   when all terminal slots are in use (C05_term_get_oom_iff) *)
                check "C05";
                let kv = List.filter_map (fun t -> match String.split_on_char '=' t with [ k; v ] -> Some (k, int_of_string v) | _ -> None) (split_ws res) in
                let tcap = param_int c "tcap" 4096 in
                (match List.assoc_opt "terms_at_end" kv, List.assoc_opt "oom" kv with
                 | Some k, Some 1 when k <> tcap ->
                   fail i "C05" "prop" (Printf.sprintf "terminal capacity probe: out of memory with %d stored terminals in a manager with %d terminal slots" k tcap)
                 | Some k, Some 0 ->
                   fail i "C05" "prop" (Printf.sprintf "terminal capacity probe: %d terminals stored without OutOfMemory in a manager with %d terminal slots" k tcap)
                 | _ -> ())
              | [ "FILL" ] | [ "BIGFILL" ] | [ "T3FILL" ] | [ "T3FILL"; _ ] ->
                (* capacity probe: with every created node alive the store must be full at the first OOM *)
                check "C05";
                let kv = List.filter_map (fun t -> match String.split_on_char '=' t with [ k; v ] -> Some (k, int_of_string v) | _ -> None) (split_ws res) in
                let cap = param_int c "cap" 0 in
                (match List.assoc_opt "inner_at_end" kv with
                 | Some k when cap > 0 && List.assoc_opt "oom" kv = Some 1 && k <> cap ->
                   fail i "C05" "prop" (Printf.sprintf "capacity probe: out of memory with %d stored nodes in a manager of capacity %d (all of them referenced)" k cap)
                 | _ -> ())
              | ("ORDER" | "ORDERSEQ") :: vs ->
                order_req := Some (List.map int_of_string vs); since := ("ORDER " ^ String.concat " " vs) :: !since
              | [ "LEVELDOWN"; k ] -> lswap_pending := true; since := ("LEVELDOWN " ^ k) :: !since
              | "MKSUBST" :: sid :: pairs ->
                let ps = List.filter_map (fun p -> match String.split_on_char '=' p with
                    | [ v; h ] -> Some (int_of_string v, slot_of h) | _ -> None) pairs in
                Hashtbl.replace substs (int_of_string sid) ps;
                (* the replacement functions are captured now *)
                if List.for_all (fun (_, s) -> Hashtbl.mem tts s) ps then
                  Hashtbl.replace subst_tts (int_of_string sid) (List.map (fun (v, s) -> (v, Hashtbl.find tts s)) ps)
                else Hashtbl.remove subst_tts (int_of_string sid)
              | [ "DROPSUBST"; sid ] -> Hashtbl.remove substs (int_of_string sid); Hashtbl.remove subst_tts (int_of_string sid)
              | [ "CLONE"; dst; a ] ->
                invalidate (slot_of dst);
                (match Hashtbl.find_opt tts (slot_of a) with Some t -> Hashtbl.replace tts (slot_of dst) t | None -> ());
                (match Hashtbl.find_opt fams (slot_of a) with Some t -> Hashtbl.replace fams (slot_of dst) t | None -> ())
              | [ "T3COF"; dt; du; de; _ ] ->
                let ds = [ slot_of dt; slot_of du; slot_of de ] in
                let p = mkpend i toks res ds in
                if not (starts_with res "none") then List.iter invalidate ds;
                pending := p :: !pending
              | [ "COF"; dt; de; _ ] ->
                let p = mkpend i toks res [ slot_of dt; slot_of de ] in
                if not (starts_with res "none") then (invalidate (slot_of dt); invalidate (slot_of de));
                pending := p :: !pending
              | ("EVAL" | "NC" | "EQ" | "SAT" | "PICK" | "PICKUNI" | "SATVALID" | "T3EVAL") :: _ ->
                pending := mkpend i toks res [] :: !pending
              | ("AEX" | "AFA" | "AUQ") :: _ :: dst :: _ ->
                let p = mkpend i toks res [ slot_of dst ] in
                invalidate (slot_of dst);
                pending := p :: !pending
              | _ :: dst :: _ ->
                let p = mkpend i toks res [ slot_of dst ] in
                invalidate (slot_of dst);
                pending := p :: !pending
              | _ -> ()))
        c.lines;
      stat "cases" 1;
      stat "steps" (List.length c.lines);
      Printf.printf "D %s %s\n" (case_id c) (Digest.to_hex (Digest.string (Buffer.contents digest)));
      if not !failed then verdict_ok c);
  dump_stats ()
