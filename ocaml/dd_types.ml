(* Shared by the DD driver modules: trace parsing, snapshots, value tables. *)
open Conv

(* ---- small helpers ---------------------------------------------------- *)
let nat_cache = Array.init 64 nat_of_int
let nat i = if i < 64 then nat_cache.(i) else nat_of_int i
let starts_with s p = String.length s >= String.length p && String.sub s 0 (String.length p) = p
let slot_of s = int_of_string (if starts_with s "h" then String.sub s 1 (String.length s - 1) else s)

let kind_of = function
  | "bdd" -> Model.KBdd | "bcdd" -> Model.KBcdd | "zbdd" -> Model.KZbdd
  | "mtbdd" | "mtbddf" -> Model.KMtbdd | "tdd" -> Model.KTdd | k -> failwith ("kind " ^ k)

(* MTBDD<F64> ("mtbddf"): terminal values are printed as the 16-digit hex bit pattern of the stored
   float.  The value of a terminal is the pattern NORMALISED as [F64::from] does (every NaN ->
   7ff8000000000000, -0.0 -> +0.0; coq/Num/F64.v [f64_norm]): two terminals that differ only in a NaN
   payload or the sign of zero carry the same value, so that the structural audits (terms_unique_b,
   canonicity over handle pairs) see them as duplicates. *)
let f64_norm_hex (v : string) : string =
  match (try Some (Z.of_string ("0x" ^ v)) with _ -> None) with
  | None -> v
  | Some x ->
    let abs = Z.logand x (Z.of_string "0x7fffffffffffffff") in
    if Z.gt abs (Z.of_string "0x7ff0000000000000") then "7ff8000000000000"
    else if Z.equal x (Z.of_string "0x8000000000000000") then "0000000000000000"
    else String.lowercase_ascii v

(* terminal value codes *)
let mt_codes : (string, int) Hashtbl.t = Hashtbl.create 16
let term_code kname (v : string) : int =
  let v = if kname = "mtbddf" then "f" ^ f64_norm_hex v else v in
  match kname, v with
  | "bdd", "False" -> 0 | "bdd", "True" -> 1
  | "bcdd", _ -> 1
  | "zbdd", "Empty" -> 0 | "zbdd", "Base" -> 1
  | "tdd", "False" -> 0 | "tdd", "Unknown" -> 1 | "tdd", "True" -> 2
  | _, _ ->
    (match Hashtbl.find_opt mt_codes v with
     | Some c -> c
     | None -> let c = Hashtbl.length mt_codes in Hashtbl.add mt_codes v c; c)

let parse_edge (t : string) : Model.edge =
  let n = String.length t in
  let tag = n > 0 && t.[n - 1] = '~' in
  let body = if tag then String.sub t 0 (n - 1) else t in
  let num = String.sub body 1 (String.length body - 1) in
  let r =
    if body.[0] = 'n' then Model.RN (pos_of_z (Z.succ (Z.of_string num)))   (* ids may be 0: shift by one *)
    else Model.RT (n_of_string num)
  in
  { Model.eref = r; Model.etag = tag }

let show_edge (e : Model.edge) =
  (match e.Model.eref with
   | Model.RN p -> "n" ^ Z.to_string (Z.pred (z_of_pos p))
   | Model.RT t -> "t" ^ string_of_n t)
  ^ if e.Model.etag then "~" else ""

(* ---- parsed snapshot --------------------------------------------------- *)
type psnap = {
  snap : Model.snap;
  v2l : int array;
  l2v : int array;
  handles : (int * Model.edge) list;
  inner : int; listed : int; gc : int; reorder : int; levels : int;
  nnodes : int;
  nterms : int;     (* Manager::num_terminals() *)
}

let split_bar (s : string) : string list =
  (* split on " | " *)
  let res = ref [] and cur = Buffer.create 64 in
  let n = String.length s in
  let i = ref 0 in
  while !i < n do
    if !i + 2 < n && s.[!i] = ' ' && s.[!i + 1] = '|' && s.[!i + 2] = ' ' then (
      res := Buffer.contents cur :: !res; Buffer.clear cur; i := !i + 3)
    else (Buffer.add_char cur s.[!i]; incr i)
  done;
  res := Buffer.contents cur :: !res;
  List.rev !res

let parse_snapshot (kname : string) (body : string) : psnap =
  let kind = kind_of kname in
  let nodes = ref Model.PositiveMap.empty in
  let terms = ref [] and handles = ref [] in
  let v2l = ref [||] and l2v = ref [||] in
  let inner = ref 0 and listed = ref 0 and gc = ref 0 and reorder = ref 0 and levels = ref 0 in
  let nn = ref 0 and nterms = ref 0 in
  List.iter
    (fun piece ->
      match split_ws piece with
      | "V2L" :: r -> v2l := Array.of_list (List.map int_of_string r)
      | "L2V" :: r -> l2v := Array.of_list (List.map int_of_string r)
      | "N" :: lvl :: id :: stored :: rc :: ch ->
        incr nn;
        let nd = { Model.nlevel = nat (int_of_string lvl); Model.nchildren = List.map parse_edge ch;
                   Model.nstored = nat (int_of_string stored); Model.nrc = n_of_string rc } in
        nodes := Model.PositiveMap.add (pos_of_z (Z.succ (Z.of_string id))) nd !nodes
      | "T" :: id :: v ->
        terms := (n_of_string id, n_of_int (term_code kname (String.concat " " v))) :: !terms
      | [ "H"; slot; e ] -> handles := (int_of_string slot, parse_edge e) :: !handles
      | "C" :: kv ->
        List.iter
          (fun t ->
            match String.split_on_char '=' t with
            | [ "inner"; v ] -> inner := int_of_string v
            | [ "listed"; v ] -> listed := int_of_string v
            | [ "gc"; v ] -> gc := int_of_string v
            | [ "reorder"; v ] -> reorder := int_of_string v
            | [ "levels"; v ] -> levels := int_of_string v
            | [ "terms"; v ] -> nterms := int_of_string v
            | _ -> ())
          kv
      | _ -> ())
    (split_bar body);
  let hs = List.rev !handles in
  let snap =
    { Model.s_kind = kind; Model.s_nodes = !nodes; Model.s_terms = List.rev !terms;
      Model.s_v2l = List.map nat (Array.to_list !v2l); Model.s_l2v = List.map nat (Array.to_list !l2v);
      Model.s_handles = List.map (fun (s, e) -> (n_of_int s, e)) hs } in
  { snap; v2l = !v2l; l2v = !l2v; handles = hs; inner = !inner; listed = !listed; gc = !gc;
    reorder = !reorder; levels = !levels; nnodes = !nn; nterms = !nterms }

(* ---- value tables ------------------------------------------------------ *)
type vt = int array          (* index = assignment (bit v = variable v), value = code *)

let pow3 (n : int) : int = let rec go k acc = if k = 0 then acc else go (k - 1) (3 * acc) in go n 1

(* TDD (ternary nodes): index = assignment in base 3, digit v = child index taken at variable v
   (0 = true, 1 = unknown, 2 = false); value = terminal code (0 False, 1 Unknown, 2 True) *)
let is_tdd (ps : psnap) = (match ps.snap.Model.s_kind with Model.KTdd -> true | _ -> false)

let value_table (ps : psnap) (e : Model.edge) : vt option =
  let n = Array.length ps.l2v in
  let tdd = is_tdd ps in
  let size = if tdd then pow3 n else 1 lsl n in
  let res = Array.make size (-1) in
  let ok = ref true in
  for a = 0 to size - 1 do
    let c (lvl : Model.nat) : Model.nat =
      let l = int_of_nat lvl in
      if tdd then (if l < n then nat (a / pow3 ps.l2v.(l) mod 3) else Model.O)
      else if l < n && (a lsr ps.l2v.(l)) land 1 = 1 then Model.O else Model.S Model.O in
    match Model.sem_edge ps.snap e c with
    | Some v -> res.(a) <- int_of_n v
    | None -> ok := false
  done;
  if !ok then Some res else None

let bfun_of_vt (n : int) (t : vt) : (Model.nat -> bool) -> bool =
 fun a ->
  let idx = ref 0 in
  for v = 0 to n - 1 do if a (nat v) then idx := !idx lor (1 lsl v) done;
  t.(!idx) = 1

let vt_of_bfun (n : int) (f : (Model.nat -> bool) -> bool) : vt =
  Array.init (1 lsl n) (fun idx -> if f (fun v -> (idx lsr int_of_nat v) land 1 = 1) then 1 else 0)

let show_vt (t : vt) =
  if Array.length t <= 64 then String.concat "" (List.map string_of_int (Array.to_list t))
  else Digest.to_hex (Digest.string (String.concat "," (List.map string_of_int (Array.to_list t))))

(* extend a table computed over n0 variables to n1 >= n0 variables *)
let extend_vt (kname : string) (n0 : int) (n1 : int) (t : vt) : vt =
  if kname = "tdd" then Array.init (pow3 n1) (fun idx -> t.(idx mod pow3 n0)) else
  Array.init (1 lsl n1) (fun idx ->
      let low = idx land ((1 lsl n0) - 1) in
      if kname = "zbdd" then (if idx lsr n0 = 0 then t.(low) else 0) else t.(low))

(* ---- ZBDD families ------------------------------------------------------ *)
let family (ps : psnap) (e : Model.edge) : int list option =
  (* sets as bitmasks over variables, sorted *)
  match Model.famz ps.snap (nat (Array.length ps.l2v + 1)) e.Model.eref with
  | None -> None
  | Some l ->
    Some (List.sort_uniq compare
            (List.map (fun s -> List.fold_left (fun acc lv -> acc lor (1 lsl ps.l2v.(int_of_nat lv))) 0 s) l))


(* ---- MTBDD (I64 terminals): value codes <-> extracted i64v ---------------- *)
let mt_string_of_code (c : int) : string =
  let r = ref "?" in
  Hashtbl.iter (fun k v -> if v = c then r := k) mt_codes;
  !r

let i64v_of_string (s : string) : Model.i64v =
  match s with
  | "nan" -> Model.INaN
  | "+inf" -> Model.IPlusInf
  | "-inf" -> Model.IMinusInf
  | _ -> Model.INum (mz_of_string s)

let string_of_i64v (v : Model.i64v) : string =
  match v with
  | Model.INaN -> "nan"
  | Model.IPlusInf -> "+inf"
  | Model.IMinusInf -> "-inf"
  | Model.INum z -> string_of_mz z

let mt_val (c : int) : Model.i64v = i64v_of_string (mt_string_of_code c)
let mt_code (v : Model.i64v) : int = term_code "mtbdd" (string_of_i64v v)
