(* C08: one adjacent level swap (harness op LEVELDOWN i between two snapshots) replayed on the
   extracted model [Model.level_swap] (coq/Mgr/LevelSwap.v, proved in Mgr/LevelSwapProofs*.v).

   The manager's table after the swap must be ISOMORPHIC to the model's result computed from
   the snapshot before: same variable/level maps, same handle edges, and a bijection between
   the node ids that is the identity on every id that existed before and survives in the
   model, under which levels, stored levels and children agree.  Only the ids of nodes that
   the swap creates are free (the manager re-uses slots it has just freed; the model takes
   ids above all ids in use).  Reference counters are not compared (not modelled; the exact
   count is audited on every snapshot anyway). *)
open Conv
open Dd_types

let pid (p : Model.positive) = Z.to_string (Z.pred (z_of_pos p))

(* Ok () | Error (kind, message) *)
let check (pp : psnap) (ps : psnap) (i : int) : (unit, string * string) result =
  let n = Array.length pp.l2v in
  if i + 1 >= n then Error ("corr", "level swap position out of range")
  else if not (Model.wf_b pp.snap) then
    (* hypothesis of the theorems C08_level_swap_xxx: reported by the structural audit already *)
    Error ("corr", "snapshot before the swap is not well-formed (hypothesis of the level_swap theorems)")
  else begin
    let m = Model.level_swap pp.snap (nat i) in
    stat "c08_swaps_replayed" 1;
    let ints l = List.map int_of_nat l in
    let show l = String.concat " " (List.map string_of_int l) in
    if ints m.Model.s_v2l <> Array.to_list ps.v2l || ints m.Model.s_l2v <> Array.to_list ps.l2v then
      Error ("corr", Printf.sprintf "level_down(%d): model var_to_level [%s] level_to_var [%s], implementation [%s] / [%s]"
               i (show (ints m.Model.s_v2l)) (show (ints m.Model.s_l2v))
               (show (Array.to_list ps.v2l)) (show (Array.to_list ps.l2v)))
    else if not (Model.wf_b m) then
      Error ("corr", Printf.sprintf "level_down(%d): the model's result is not well-formed (contradicts C08_level_swap_wf)" i)
    else begin
      let mh = List.map (fun (s, e) -> (int_of_n s, show_edge e)) m.Model.s_handles in
      let ih = List.map (fun (s, e) -> (s, show_edge e)) ps.handles in
      if mh <> ih then Error ("corr", Printf.sprintf "level_down(%d): handle edges differ between model and implementation" i)
      else begin
        let mnodes = m.Model.s_nodes and inodes = ps.snap.Model.s_nodes in
        let phi : (string, Model.positive) Hashtbl.t = Hashtbl.create 256 in   (* model id -> manager id *)
        let inv : (string, Model.positive) Hashtbl.t = Hashtbl.create 256 in   (* manager id -> model id *)
        let work = Queue.create () in
        let err = ref None in
        let fail_ msg = if !err = None then err := Some msg in
        let bind (a : Model.positive) (b : Model.positive) =
          match Hashtbl.find_opt phi (pid a), Hashtbl.find_opt inv (pid b) with
          | Some b', _ when pid b' <> pid b ->
            fail_ (Printf.sprintf "model node n%s corresponds to both n%s and n%s of the manager" (pid a) (pid b') (pid b))
          | _, Some a' when pid a' <> pid a ->
            fail_ (Printf.sprintf "manager node n%s corresponds to both n%s and n%s of the model" (pid b) (pid a') (pid a))
          | Some _, _ -> ()
          | None, _ -> Hashtbl.replace phi (pid a) b; Hashtbl.replace inv (pid b) a; Queue.add (a, b) work
        in
        (* ids that existed before and survive in the model keep their id *)
        let created = ref 0 in
        List.iter
          (fun (id, _) ->
            match Model.PositiveMap.find id pp.snap.Model.s_nodes with
            | Some _ -> bind id id
            | None -> incr created)
          (Model.PositiveMap.elements mnodes);
        stat "c08_swap_new_nodes" !created;
        stat "c08_swap_removed_nodes"
          (List.length (List.filter (fun (id, _) -> Model.PositiveMap.find id mnodes = None)
                          (Model.PositiveMap.elements pp.snap.Model.s_nodes)));
        while !err = None && not (Queue.is_empty work) do
          let a, b = Queue.pop work in
          match Model.PositiveMap.find a mnodes, Model.PositiveMap.find b inodes with
          | None, _ -> fail_ (Printf.sprintf "model refers to the missing node n%s" (pid a))
          | Some _, None ->
            fail_ (Printf.sprintf "node n%s of the model's result is not stored in the manager after the swap" (pid a))
          | Some x, Some y ->
            if int_of_nat x.Model.nlevel <> int_of_nat y.Model.nlevel then
              fail_ (Printf.sprintf "node n%s: level %d in the model, %d in the manager" (pid b)
                       (int_of_nat x.Model.nlevel) (int_of_nat y.Model.nlevel))
            else if int_of_nat x.Model.nstored <> int_of_nat y.Model.nstored then
              fail_ (Printf.sprintf "node n%s: stored level %d in the model, %d in the manager" (pid b)
                       (int_of_nat x.Model.nstored) (int_of_nat y.Model.nstored))
            else if List.length x.Model.nchildren <> List.length y.Model.nchildren then
              fail_ (Printf.sprintf "node n%s: different number of children" (pid b))
            else
              List.iter2
                (fun (ex : Model.edge) (ey : Model.edge) ->
                  if ex.Model.etag <> ey.Model.etag then fail_ (Printf.sprintf "node n%s: child tags differ" (pid b))
                  else
                    match ex.Model.eref, ey.Model.eref with
                    | Model.RT t, Model.RT u ->
                      if string_of_n t <> string_of_n u then
                        fail_ (Printf.sprintf "node n%s: children [%s] in the model, [%s] in the manager" (pid b)
                                 (String.concat " " (List.map show_edge x.Model.nchildren))
                                 (String.concat " " (List.map show_edge y.Model.nchildren)))
                    | Model.RN c, Model.RN d -> bind c d
                    | _, _ ->
                      fail_ (Printf.sprintf "node n%s: children [%s] in the model, [%s] in the manager" (pid b)
                               (String.concat " " (List.map show_edge x.Model.nchildren))
                               (String.concat " " (List.map show_edge y.Model.nchildren))))
                x.Model.nchildren y.Model.nchildren
        done;
        (match !err with
         | None ->
           (* every node of either side takes part in the correspondence *)
           List.iter
             (fun (id, _) ->
               if not (Hashtbl.mem phi (pid id)) then
                 fail_ (Printf.sprintf "node n%s of the model's result has no counterpart in the manager" (pid id)))
             (Model.PositiveMap.elements mnodes);
           List.iter
             (fun (id, (nd : Model.node)) ->
               if not (Hashtbl.mem inv (pid id)) then
                 fail_ (Printf.sprintf "manager node n%s (level %d, children %s) does not exist in the model's result" (pid id)
                          (int_of_nat nd.Model.nlevel) (String.concat " " (List.map show_edge nd.Model.nchildren))))
             (Model.PositiveMap.elements inodes)
         | Some _ -> ());
        match !err with
        | None -> stat "c08_swaps_isomorphic" 1; Ok ()
        | Some msg -> Error ("corr", Printf.sprintf "level_down(%d): %s" i msg)
      end
    end
  end
