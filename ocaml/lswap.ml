(* C08: one adjacent level swap (harness op LEVELDOWN i between two snapshots) replayed on the
   extracted model [Model.level_swap] (coq/Mgr/LevelSwap.v, proved in Mgr/LevelSwapProofs*.v).

   The manager's table after the swap must be ISOMORPHIC to the model's result computed from
   the snapshot before: same variable/level maps, same handle edges, and a bijection between
   the node ids that is the identity on every id that existed before and survives in the
   model, under which levels, stored levels and children agree.  Only the ids of nodes that
   the swap creates are free (the manager re-uses slots it has just freed; the model takes
   ids above all ids in use).  Reference counters are not compared (not modelled; the exact
   count is audited on every snapshot anyway).

   [check_order]: the same for a whole set_var_order / set_var_order_seq on a table without
   empty levels (there the implementation performs exactly the adjacent swaps of its bubble
   sort, in that order): the extracted sort_order and bubble_sort give the swaps, the extracted
   level_swap performs them one after the other (= Model.set_var_order_model, unfolded so that
   the ids that survive from the first table can be told from re-used ones). *)
open Conv
open Dd_types

let pid (p : Model.positive) = Z.to_string (Z.pred (z_of_pos p))

(* isomorphism between the model's table [m] and the manager's table [ps]; [orig id] = the id
   existed before the operation and has been stored ever since (it must keep its identity).

   GLUE: the verdict is the one of the EXTRACTED, PROVED checker [Model.iso_snap_b] (coq/DD/IsoCheck.v; sound and
   complete by C20_iso_snap_sound / C20_iso_check_complete: kind, variable order, terminals and handle slots
   literally; nodes and handle edges up to an injective renaming that fixes the [orig] ids and maps the [roots]).
   The former hand-written comparison [iso_hand] below only words the message when the checker rejects; if it
   finds nothing the statistic [iso_disagree] is raised and the case fails all the same.  With GLUE_CROSS=1 in the
   environment it is also run on every accepted table (it must accept: [iso_disagree] otherwise). *)
let glue_cross = Sys.getenv_opt "GLUE_CROSS" <> None
let iso_hand ?(roots : (Model.positive * Model.positive) list = []) (orig : Model.positive -> bool) (m : Model.snap) (ps : psnap) (what : string) : (unit, string * string) result =
  let ints l = List.map int_of_nat l in
  let show l = String.concat " " (List.map string_of_int l) in
  if ints m.Model.s_v2l <> Array.to_list ps.v2l || ints m.Model.s_l2v <> Array.to_list ps.l2v then
    Error ("corr", Printf.sprintf "%s: model var_to_level [%s] level_to_var [%s], implementation [%s] / [%s]"
             what (show (ints m.Model.s_v2l)) (show (ints m.Model.s_l2v))
             (show (Array.to_list ps.v2l)) (show (Array.to_list ps.l2v)))
  else begin
    (* (the manager's table is audited by wf_full_b on every snapshot: an isomorphic model table is well-formed too) *)
    let mh = List.map (fun (s, e) -> (int_of_n s, show_edge e)) m.Model.s_handles in
    let ih = List.map (fun (s, e) -> (s, show_edge e)) ps.handles in
    if mh <> ih then Error ("corr", Printf.sprintf "%s: handle edges differ between model and implementation" what)
    else begin
      let mnodes = m.Model.s_nodes and inodes = ps.snap.Model.s_nodes in
      let phi : (string, Model.positive) Hashtbl.t = Hashtbl.create 256 in   (* model id -> manager id *)
      let inv : (string, Model.positive) Hashtbl.t = Hashtbl.create 256 in   (* manager id -> model id *)
      let work = Queue.create () in
      let err = ref None in
      let fail_ msg = if !err = None then err := Some msg in
      let bind (a : Model.positive) (b : Model.positive) =
        match Hashtbl.find_opt phi (pid a), Hashtbl.find_opt inv (pid b) with
        | Some b', _ when pid b' <> pid b ->
          fail_ (Printf.sprintf "model node n%s corresponds to both n%s and n%s of the manager" (pid a) (pid b') (pid b))
        | _, Some a' when pid a' <> pid a ->
          fail_ (Printf.sprintf "manager node n%s corresponds to both n%s and n%s of the model" (pid b) (pid a') (pid a))
        | Some _, _ -> ()
        | None, _ -> Hashtbl.replace phi (pid a) b; Hashtbl.replace inv (pid b) a; Queue.add (a, b) work
      in
      (* ids that existed before and survive in the model keep their id *)
      List.iter (fun (id, _) -> if orig id then bind id id) (Model.PositiveMap.elements mnodes);
      (* further pairs that must correspond (ZBDD: the nodes of the rebuilt tautology chain, level by level) *)
      List.iter (fun (a, b) -> bind a b) roots;
      while !err = None && not (Queue.is_empty work) do
        let a, b = Queue.pop work in
        match Model.PositiveMap.find a mnodes, Model.PositiveMap.find b inodes with
        | None, _ -> fail_ (Printf.sprintf "model refers to the missing node n%s" (pid a))
        | Some _, None ->
          fail_ (Printf.sprintf "node n%s of the model's result is not stored in the manager afterwards" (pid a))
        | Some x, Some y ->
          if int_of_nat x.Model.nlevel <> int_of_nat y.Model.nlevel then
            fail_ (Printf.sprintf "node n%s: level %d in the model, %d in the manager" (pid b)
                     (int_of_nat x.Model.nlevel) (int_of_nat y.Model.nlevel))
          else if int_of_nat x.Model.nstored <> int_of_nat y.Model.nstored then
            fail_ (Printf.sprintf "node n%s: stored level %d in the model, %d in the manager" (pid b)
                     (int_of_nat x.Model.nstored) (int_of_nat y.Model.nstored))
          else if List.length x.Model.nchildren <> List.length y.Model.nchildren then
            fail_ (Printf.sprintf "node n%s: different number of children" (pid b))
          else
            List.iter2
              (fun (ex : Model.edge) (ey : Model.edge) ->
                let differ () =
                  fail_ (Printf.sprintf "node n%s: children [%s] in the model, [%s] in the manager" (pid b)
                           (String.concat " " (List.map show_edge x.Model.nchildren))
                           (String.concat " " (List.map show_edge y.Model.nchildren))) in
                if ex.Model.etag <> ey.Model.etag then fail_ (Printf.sprintf "node n%s: child tags differ" (pid b))
                else
                  match ex.Model.eref, ey.Model.eref with
                  | Model.RT t, Model.RT u -> if string_of_n t <> string_of_n u then differ ()
                  | Model.RN c, Model.RN d -> bind c d
                  | _, _ -> differ ())
              x.Model.nchildren y.Model.nchildren
      done;
      (match !err with
       | None ->
         (* every node of either side takes part in the correspondence *)
         List.iter
           (fun (id, _) ->
             if not (Hashtbl.mem phi (pid id)) then
               fail_ (Printf.sprintf "node n%s of the model's result has no counterpart in the manager" (pid id)))
           (Model.PositiveMap.elements mnodes);
         List.iter
           (fun (id, (nd : Model.node)) ->
             if not (Hashtbl.mem inv (pid id)) then
               fail_ (Printf.sprintf "manager node n%s (level %d, children %s) does not exist in the model's result" (pid id)
                        (int_of_nat nd.Model.nlevel) (String.concat " " (List.map show_edge nd.Model.nchildren))))
           (Model.PositiveMap.elements inodes)
       | Some _ -> ());
      match !err with
      | None -> Ok ()
      | Some msg -> Error ("corr", Printf.sprintf "%s: %s" what msg)
    end
  end

let iso ?(roots : (Model.positive * Model.positive) list = []) (orig : Model.positive -> bool) (m : Model.snap) (ps : psnap) (what : string) : (unit, string * string) result =
  let e (p : Model.positive) = { Model.eref = Model.RN p; Model.etag = false } in
  stat "iso_extracted_checks" 1;
  stat "iso_disagree" 0;
  match Model.iso_snap_b orig m ps.snap (List.map (fun (a, b) -> (e a, e b)) roots) with
  | Some _ ->
    if glue_cross then
      (match iso_hand ~roots orig m ps what with
       | Ok () -> Ok ()
       | Error (_, msg) ->
         stat "iso_disagree" 1;
         Error ("corr", Printf.sprintf "driver: the extracted checker accepts a table the hand-written comparison rejects (%s)" msg))
    else Ok ()
  | None ->
    (match iso_hand ~roots orig m ps what with
     | Error err -> Error err
     | Ok () ->
       stat "iso_disagree" 1;
       Error ("corr", Printf.sprintf "%s: the extracted checker IsoCheck.iso_snap_b rejects the manager's table (no injective renaming of the new nodes maps the model's table onto it); the hand-written comparison finds no difference" what))

let mem (m : Model.node Model.PositiveMap.t) (id : Model.positive) = Model.PositiveMap.find id m <> None

(* Ok () | Error (kind, message) *)
let check ?(kname = "bdd") (pp : psnap) (ps : psnap) (i : int) : (unit, string * string) result =
  let level_swap = if kname = "bcdd" then Model.level_swap_c else if kname = "tdd" then Model.level_swap_t else Model.level_swap in
  let n = Array.length pp.l2v in
  if i + 1 >= n then Error ("corr", "level swap position out of range")
  else if not (Model.wf_b pp.snap) then
    (* hypothesis of the theorems C08_level_swap_xxx: reported by the structural audit already *)
    Error ("corr", "snapshot before the swap is not well-formed (hypothesis of the level_swap theorems)")
  else begin
    let m = level_swap pp.snap (nat i) in
    stat "c08_swaps_replayed" 1;
    if kname = "tdd" then stat "c08_tdd_swaps_replayed" 1;
    stat "c08_swap_new_nodes"
      (List.length (List.filter (fun (id, _) -> not (mem pp.snap.Model.s_nodes id)) (Model.PositiveMap.elements m.Model.s_nodes)));
    stat "c08_swap_removed_nodes"
      (List.length (List.filter (fun (id, _) -> not (mem m.Model.s_nodes id)) (Model.PositiveMap.elements pp.snap.Model.s_nodes)));
    match iso (mem pp.snap.Model.s_nodes) m ps (Printf.sprintf "level_down(%d)" i) with
    | Ok () -> stat "c08_swaps_isomorphic" 1; Ok ()
    | e -> e
  end

(* the model's unique-table lookup and reference test are linear scans: whole reorderings are replayed on
   tables up to this size only (single swaps always) *)
let max_nodes = match Sys.getenv_opt "C08_REPLAY_MAX_NODES" with Some v -> int_of_string v | None -> 1200

(* set_var_order(req) between the snapshots [pp] and [ps]; [None] = not applicable *)
let check_order ?(kname = "bdd") (pp : psnap) (ps : psnap) (req : int list) : (unit, string * string) result option =
  let level_swap = if kname = "bcdd" then Model.level_swap_c else if kname = "tdd" then Model.level_swap_t else Model.level_swap in
  let set_var_order_model =
    if kname = "bcdd" then Model.set_var_order_model_c else if kname = "tdd" then Model.set_var_order_model_t
    else Model.set_var_order_model in
  let n = Array.length pp.l2v in
  let distinct = List.length (List.sort_uniq compare req) = List.length req in
  let nonempty =
    let cnt = Array.make (max n 1) 0 in
    List.iter (fun (_, (nd : Model.node)) -> let l = int_of_nat nd.Model.nlevel in if l < n then cnt.(l) <- cnt.(l) + 1)
      (Model.PositiveMap.elements pp.snap.Model.s_nodes);
    n > 0 && Array.for_all (fun c -> c > 0) cnt in
  if List.length req < 2 || (not distinct) || List.exists (fun v -> v < 0 || v >= n) req then None
  else if not nonempty then (stat "c08_order_skipped_empty_level" 1; None)
  else if pp.nnodes > max_nodes then (stat "c08_order_skipped_large" 1; None)
  else if not (Model.wf_b pp.snap) then
    Some (Error ("corr", "snapshot before the reordering is not well-formed (hypothesis of the set_var_order_model theorems)"))
  else begin
    let levels = List.map (fun v -> nat pp.v2l.(v)) req in
    let target = Model.sort_order (nat n) levels in
    let _, swaps = Model.bubble_sort target in
    stat "c08_orders_replayed" 1;
    if kname = "tdd" then stat "c08_tdd_orders_replayed" 1;
    stat "c08_order_swaps" (List.length swaps);
    let orig : (string, unit) Hashtbl.t = Hashtbl.create 256 in
    List.iter (fun (id, _) -> Hashtbl.replace orig (pid id) ()) (Model.PositiveMap.elements pp.snap.Model.s_nodes);
    let m =
      List.fold_left
        (fun s k ->
          let s' = level_swap s k in
          Hashtbl.filter_map_inplace (fun id () -> if mem s'.Model.s_nodes (pos_of_z (Z.succ (Z.of_string id))) then Some () else None) orig;
          s')
        pp.snap swaps in
    (* the unfolded composition is the model the theorems are about *)
    let m' = set_var_order_model pp.snap (List.map nat req) in
    if List.map (fun (id, _) -> pid id) (Model.PositiveMap.elements m.Model.s_nodes)
       <> List.map (fun (id, _) -> pid id) (Model.PositiveMap.elements m'.Model.s_nodes)
       || List.map int_of_nat m.Model.s_v2l <> List.map int_of_nat m'.Model.s_v2l then
      Some (Error ("corr", "driver: the swap-by-swap replay differs from Model.set_var_order_model"))
    else
      match iso (fun id -> Hashtbl.mem orig (pid id)) m ps
              (Printf.sprintf "set_var_order [%s]" (String.concat " " (List.map string_of_int req))) with
      | Ok () -> stat "c08_orders_isomorphic" 1; Some (Ok ())
      | e -> Some e
  end

(* ---- ZBDD (coq/Mgr/LevelSwapZ.v, proved in Mgr/LevelSwapZ*.v) ----------------------------------------
   Manager::reorder brackets the closure with ZBDDCache::pre_reorder_mut / post_reorder_mut: the model's steps are
   zchain_drop, one level_swap_zc per swap, zchain_rebuild.  The steps are performed one by one so that the ids
   that are stored from the first table to the last can be told from re-used ones (a dropped chain node's id may be
   taken again by a created node, in the manager as in the model); the composition is cross-checked against the
   extracted level_swap_z / set_var_order_model_z, which are what the theorems are about. *)
let run_steps (s0 : Model.snap) (steps : (Model.snap -> Model.snap) list) : Model.snap * (Model.positive -> bool) =
  let orig : (string, unit) Hashtbl.t = Hashtbl.create 256 in
  List.iter (fun (id, _) -> Hashtbl.replace orig (pid id) ()) (Model.PositiveMap.elements s0.Model.s_nodes);
  let m =
    List.fold_left
      (fun s f ->
        let s' = f s in
        Hashtbl.filter_map_inplace
          (fun id () -> if mem s'.Model.s_nodes (pos_of_z (Z.succ (Z.of_string id))) then Some () else None) orig;
        s')
      s0 steps in
  (m, fun id -> Hashtbl.mem orig (pid id))

let same_table (a : Model.snap) (b : Model.snap) =
  List.map (fun (id, _) -> pid id) (Model.PositiveMap.elements a.Model.s_nodes)
  = List.map (fun (id, _) -> pid id) (Model.PositiveMap.elements b.Model.s_nodes)
  && List.map int_of_nat a.Model.s_v2l = List.map int_of_nat b.Model.s_v2l

let z_hyps (pp : psnap) (what : string) : (unit, string * string) result =
  if not (Model.zbdd_ok_b pp.snap) then
    Error ("corr", Printf.sprintf "snapshot before the %s does not satisfy zbdd_ok_b (hypothesis of the C08_zbdd theorems)" what)
  else if Model.zchain_ids pp.snap = None then
    Error ("corr", Printf.sprintf "snapshot before the %s does not hold the complete tautology chain" what)
  else Ok ()

(* the rebuilt chains of the model's result and of the manager, paired level by level *)
let chain_roots (m : Model.snap) (ps : psnap) : ((Model.positive * Model.positive) list, string * string) result =
  match Model.zchain_ids m, Model.zchain_ids ps.snap with
  | Some a, Some b when List.length a = List.length b -> Ok (List.combine a b)
  | None, _ -> Error ("corr", "the model's result does not hold a complete tautology chain")
  | _, _ -> Error ("corr", "the manager's table after the reordering does not hold a complete tautology chain")

let count_changes (pp : psnap) (m : Model.snap) =
  stat "c08_swap_new_nodes"
    (List.length (List.filter (fun (id, _) -> not (mem pp.snap.Model.s_nodes id)) (Model.PositiveMap.elements m.Model.s_nodes)));
  stat "c08_swap_removed_nodes"
    (List.length (List.filter (fun (id, _) -> not (mem m.Model.s_nodes id)) (Model.PositiveMap.elements pp.snap.Model.s_nodes)))

let check_z (pp : psnap) (ps : psnap) (i : int) : (unit, string * string) result =
  let n = Array.length pp.l2v in
  if i + 1 >= n then Error ("corr", "level swap position out of range")
  else match z_hyps pp "swap" with
    | Error e -> Error e
    | Ok () ->
      let m, orig = run_steps pp.snap [ Model.zchain_drop; (fun s -> Model.level_swap_zc s (nat i)); Model.zchain_rebuild ] in
      stat "c08_swaps_replayed" 1;
      stat "c08_zbdd_swaps_replayed" 1;
      count_changes pp m;
      stat "c08_zbdd_chain_nodes_dropped"
        (let d = Model.zchain_drop pp.snap in
         List.length (List.filter (fun (id, _) -> not (mem d.Model.s_nodes id)) (Model.PositiveMap.elements pp.snap.Model.s_nodes)));
      if not (same_table m (Model.level_swap_z pp.snap (nat i))) then
        Error ("corr", "driver: the step-by-step replay differs from Model.level_swap_z")
      else
        match chain_roots m ps with
        | Error e -> Error e
        | Ok roots ->
          match iso ~roots orig m ps (Printf.sprintf "zbdd reorder(level_down(%d))" i) with
          | Ok () -> stat "c08_swaps_isomorphic" 1; Ok ()
          | e -> e

let check_order_z (pp : psnap) (ps : psnap) (req : int list) : (unit, string * string) result option =
  let n = Array.length pp.l2v in
  let distinct = List.length (List.sort_uniq compare req) = List.length req in
  if List.length req < 2 || (not distinct) || List.exists (fun v -> v < 0 || v >= n) req then None
  else if pp.nnodes > max_nodes then (stat "c08_order_skipped_large" 1; None)
  else match z_hyps pp "reordering" with
    | Error e -> Some (Error e)
    | Ok () ->
      let levels = List.map (fun v -> nat pp.v2l.(v)) req in
      let target = Model.sort_order (nat n) levels in
      let _, swaps = Model.bubble_sort target in
      stat "c08_orders_replayed" 1;
      stat "c08_zbdd_orders_replayed" 1;
      stat "c08_order_swaps" (List.length swaps);
      let steps =
        if swaps = [] then []
        else (Model.zchain_drop :: List.map (fun k -> fun s -> Model.level_swap_zc s k) swaps) @ [ Model.zchain_rebuild ] in
      let m, orig = run_steps pp.snap steps in
      if not (same_table m (Model.set_var_order_model_z pp.snap (List.map nat req))) then
        Some (Error ("corr", "driver: the step-by-step replay differs from Model.set_var_order_model_z"))
      else
        match chain_roots m ps with
        | Error e -> Some (Error e)
        | Ok roots ->
          match iso ~roots orig m ps
                  (Printf.sprintf "zbdd set_var_order [%s]" (String.concat " " (List.map string_of_int req))) with
          | Ok () -> stat "c08_orders_isomorphic" 1; Some (Ok ())
          | e -> Some e
