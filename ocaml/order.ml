(* C08 helper: number of adjacent swaps between two variable orders and the
   optimum over all total orders that respect a requested relative order. *)

(* old_v2l, new_v2l : variable -> level *)
let inversions (old_v2l : int array) (new_v2l : int array) : int =
  let n = Array.length old_v2l in
  let c = ref 0 in
  for x = 0 to n - 1 do
    for y = 0 to n - 1 do
      if old_v2l.(x) < old_v2l.(y) && new_v2l.(x) > new_v2l.(y) then incr c
    done
  done;
  !c

(* minimal number of inversions of a total order in which the variables of
   [req] appear in that relative order.  The unnamed variables keep their mutual
   order in an optimal completion and each can be placed independently into its
   cheapest gap (the cost of a placement decomposes per unnamed variable and the
   per-variable optimal gaps are monotone), so: cost = inversions among [req]
   itself + sum over unnamed u of min over gaps g of (#named before the gap that
   were below u + #named after the gap that were above u). *)
let min_inversions (old_v2l : int array) (req : int list) : int =
  let n = Array.length old_v2l in
  let named = Array.of_list req in
  let m = Array.length named in
  let is_named = Array.make n false in
  Array.iter (fun v -> is_named.(v) <- true) named;
  let c = ref 0 in
  for i = 0 to m - 1 do
    for j = i + 1 to m - 1 do
      if old_v2l.(named.(i)) > old_v2l.(named.(j)) then incr c
    done
  done;
  for u = 0 to n - 1 do
    if not is_named.(u) then (
      let best = ref max_int in
      for g = 0 to m do
        (* u is placed after named.(0..g-1) and before named.(g..m-1) *)
        let cost = ref 0 in
        for i = 0 to g - 1 do if old_v2l.(named.(i)) > old_v2l.(u) then incr cost done;
        for i = g to m - 1 do if old_v2l.(named.(i)) < old_v2l.(u) then incr cost done;
        if !cost < !best then best := !cost
      done;
      c := !c + !best)
  done;
  !c
