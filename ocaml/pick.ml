(* C13: cube picking.  Reference walk on the *function* (spec level): in a
   reduced ordered BDD/BCDD the node reached after fixing the literals so far
   tests variable v iff the two cofactors of the restricted function differ, so
   the walk below determines for every level whether the variable is skipped
   (don't care), forced, or a genuine choice. *)
open Conv
open Dd_types

let parse_cube (s : string) : int array option =
  (* "cube:01-" -> [|0;1;-1|] ; "none" -> None *)
  if s = "none" then None
  else
    let b = String.sub s 5 (String.length s - 5) in
    Some (Array.init (String.length b) (fun i -> match b.[i] with '0' -> 0 | '1' -> 1 | _ -> -1))

let restrict_tt (n : int) (t : vt) (v : int) (b : int) : vt =
  Array.init (1 lsl n) (fun idx -> let idx' = if b = 1 then idx lor (1 lsl v) else idx land lnot (1 lsl v) in t.(idx'))

let is_zero (t : vt) = Array.for_all (fun x -> x = 0) t

(* walk: returns the list of (level, var, status) with status
   `Skip | `Forced of int | `Choice ; following [decide] at choices *)
let walk (n : int) (l2v : int array) (f : vt) (decide : int -> int -> int) =
  let g = ref f in
  let res = ref [] in
  for l = 0 to n - 1 do
    let v = l2v.(l) in
    let g1 = restrict_tt n !g v 1 and g0 = restrict_tt n !g v 0 in
    if g1 = g0 then res := (l, v, `Skip) :: !res
    else if is_zero g0 then (res := (l, v, `Forced 1) :: !res; g := g1)
    else if is_zero g1 then (res := (l, v, `Forced 0) :: !res; g := g0)
    else (
      let d = decide l v in
      res := (l, v, `Choice d) :: !res;
      g := if d = 1 then g1 else g0)
  done;
  List.rev !res

let cube_tt (n : int) (cube : int array) : vt =
  Array.init (1 lsl n) (fun idx ->
      let ok = ref true in
      Array.iteri (fun v c -> if c >= 0 && v < n && (idx lsr v) land 1 <> c then ok := false) cube;
      if !ok then 1 else 0)

let last_pick : (string * string, int array option) Hashtbl.t = Hashtbl.create 16
(* to be called at the start of a case: cubes remembered for PICKDD must not leak between cases *)
let reset () = Hashtbl.reset last_pick

let check ~(kname : string) ~(n : int) ~(ps : psnap) ~(get : string -> vt option) ~(getd : string -> vt option)
    ~(fail : int -> string -> string -> string -> unit) ~(check : string -> unit)
    (step : int) (toks : string list) (res : string) : unit =
  let implies (cube : int array) (f : vt) =
    Model.cube_implies (nat n)
      (fun v -> let v = int_of_nat v in if v < Array.length cube && cube.(v) >= 0 then Some (cube.(v) = 1) else None)
      (bfun_of_vt n f) in
  let strict = kname = "bdd" || kname = "bcdd" in
  match toks with
  | [ "PICK"; a; mask ] ->
    (match get a with
     | None -> stat "unresolved" 1
     | Some f ->
       check "C13";
       let mask = int_of_string mask in
       let parts = split_ws res in
       let cube = parse_cube (List.hd parts) in
       Hashtbl.replace last_pick (a, string_of_int mask) cube;
       let calls = List.filter_map (fun t -> match String.split_on_char ':' t with
           | [ l; st ] when l <> "cube" -> (try Some (int_of_string l, st) with _ -> None) | _ -> None) (List.tl parts) in
       (match cube with
        | None -> if not (is_zero f) then fail step "C13" "prop" "pick_cube returned None for a satisfiable function"
        | Some cube ->
          if is_zero f then fail step "C13" "prop" "pick_cube returned a cube for the unsatisfiable function"
          else if not (implies cube f) then
            fail step "C13" "prop" (Printf.sprintf "picked cube %s does not imply the function %s" (List.hd parts) (show_vt f))
          else (
            let levels = List.map fst calls in
            if List.length (List.sort_uniq compare levels) <> List.length levels then
              fail step "C13" "prop" "choice function called twice for one level";
            if List.exists (fun (_, st) -> st <> "ok") calls then
              fail step "C13" "prop" "choice function called with an edge that is not an inner node of the given level";
            if strict then (
              let w = walk n ps.l2v f (fun l _ -> (mask lsr l) land 1) in
              List.iter
                (fun (l, v, st) ->
                  let c = if v < Array.length cube then cube.(v) else -1 in
                  match st with
                  | `Skip -> if c <> -1 then fail step "C13" "prop" (Printf.sprintf "variable %d is not tested on the path but the cube fixes it" v)
                  | `Forced b -> if c <> b then fail step "C13" "prop" (Printf.sprintf "variable %d is forced to %d but the cube says %d" v b c)
                  | `Choice d ->
                    if c <> d then fail step "C13" "prop" (Printf.sprintf "variable %d (level %d): choice function said %d, cube says %d" v l d c);
                    if not (List.mem l levels) then fail step "C13" "prop" (Printf.sprintf "level %d offers a choice but the choice function was not called" l))
                w;
              let choice_levels = List.filter_map (fun (l, _, st) -> match st with `Choice _ -> Some l | _ -> None) w in
              List.iter (fun l -> if not (List.mem l choice_levels) then
                            fail step "C13" "prop" (Printf.sprintf "choice function called at level %d where the value is forced or irrelevant" l)) levels))))
  | [ "PICKDD"; dst; a; mask ] ->
    (match get a, getd dst with
     | Some f, Some g ->
       check "C13";
       if is_zero f then (if not (is_zero g) then fail step "C13" "prop" "pick_cube_dd of the false function is not false")
       else (
         (match Hashtbl.find_opt last_pick (a, mask) with
          | Some (Some cube) ->
            if cube_tt n cube <> g then
              fail step "C13" "prop" (Printf.sprintf "pick_cube and pick_cube_dd describe different cubes (dd table %s)" (show_vt g))
          | _ -> ());
         if is_zero g then fail step "C13" "prop" "pick_cube_dd returned false for a satisfiable function"
         else if not (Array.for_all2 (fun x y -> x = 0 || y = 1) g f) then
           fail step "C13" "prop" "pick_cube_dd result does not imply the function")
     | _ -> stat "unresolved" 1)
  | [ "PICKSET"; dst; a; pos; neg ] ->
    (match get a, getd dst with
     | Some f, Some g ->
       check "C13";
       let pos = int_of_string pos and neg = int_of_string neg in
       if is_zero f then (if not (is_zero g) then fail step "C13" "prop" "pick_cube_dd_set of the false function is not false")
       else if is_zero g then fail step "C13" "prop" "pick_cube_dd_set returned false for a satisfiable function"
       else if not (Array.for_all2 (fun x y -> x = 0 || y = 1) g f) then
         fail step "C13" "prop" "pick_cube_dd_set result does not imply the function"
       else if strict then (
         (* recover the cube from g: literal of v is fixed iff g depends on v *)
         let cube = Array.init n (fun v ->
             let g1 = restrict_tt n g v 1 and g0 = restrict_tt n g v 0 in
             if g1 = g0 then -1 else if is_zero g0 then 1 else if is_zero g1 then 0 else 2) in
         if Array.exists (fun c -> c = 2) cube || cube_tt n cube <> g then
           fail step "C13" "prop" (Printf.sprintf "pick_cube_dd_set result %s is not a cube" (show_vt g))
         else (
           let w = walk n ps.l2v f (fun _ v ->
               if (pos lsr v) land 1 = 1 then 1 else if (neg lsr v) land 1 = 1 then 0
               else (if cube.(v) >= 0 then cube.(v) else 1)) in
           List.iter
             (fun (_, v, st) ->
               let c = cube.(v) in
               match st with
               | `Skip -> if c <> -1 then fail step "C13" "prop" (Printf.sprintf "variable %d could be left don't-care but the cube fixes it" v)
               | `Forced b -> if c <> b then fail step "C13" "prop" (Printf.sprintf "variable %d is forced to %d but the cube says %d" v b c)
               | `Choice d ->
                 if (pos lor neg) lsr v land 1 = 1 then (
                   if c <> d then fail step "C13" "prop"
                       (Printf.sprintf "variable %d: literal set asks for %d, cube says %d" v d c))
                 else if c < 0 then fail step "C13" "prop" (Printf.sprintf "variable %d must be decided but is don't-care" v))
             w))
     | _ -> stat "unresolved" 1)
  | [ "PICKUNI"; a; _seed; cnt ] ->
    (match get a with
     | None -> stat "unresolved" 1
     | Some f ->
       check "C13";
       let cnt = float_of_string cnt in
       let models = float_of_int (Array.fold_left ( + ) 0 f) in
       let entries = List.filter_map (fun t -> match String.split_on_char '=' t with
           | [ c; k ] -> Some (c, float_of_string k) | _ -> None) (List.tl (split_ws res)) in
       List.iter
         (fun (c, k) ->
           match parse_cube c with
           | None -> if not (is_zero f) then fail step "C13" "prop" "pick_cube_uniform returned None for a satisfiable function"
           | Some cube ->
             if is_zero f then fail step "C13" "prop" "pick_cube_uniform returned a cube for the false function"
             else if not (implies cube f) then fail step "C13" "prop" (Printf.sprintf "pick_cube_uniform returned non-model cube %s" c)
             else (
               let dc = Array.fold_left (fun acc x -> if x < 0 then acc + 1 else acc) 0 (Array.sub cube 0 (min n (Array.length cube))) in
               let exp = cnt *. (2. ** float_of_int dc) /. models in
               let tol = 8. *. sqrt exp +. 10. in
               if abs_float (k -. exp) > tol then
                 fail step "C13" "prop"
                   (Printf.sprintf "pick_cube_uniform is biased: cube %s drawn %.0f times, expected %.1f +- %.1f" c k exp tol)))
         entries)
  | _ -> ()
