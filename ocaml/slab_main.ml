(* ARCSLAB driver (C05 / C20 stage "arcslab"): replays every op of the implementation's trace
   (harness/src/bin/h_slab.rs on the real crate `arcslab`) on the extracted model
   coq/Tbl/ArcSlab.v and compares every observable: slot addresses (page, index), returned
   items, counts, num_items, live pages, the drop log, whether the slab was destroyed, and which
   operations are rejected.

   kind=prop: an observable the property C05 determines differs (an item dropped at the wrong
   time / twice / never, into_inner's Some/None, a count, num_items, the slab destroyed too early
   / too late, pages not given back, a slot handed out while its item is alive, panic, hang,
   crash, more live pages than the free-list discipline needs = lost slots).  kind=corr: only the
   ADDRESS policy differs (which free slot is taken, fewer pages). *)
open Conv

let parse_op (toks : string list) : Model.op option =
  let a i = nat_of_int (int_of_string (List.nth toks i)) in
  match List.hd toks with
  | "ADD" -> Some (Model.OAdd (a 1, n_of_string (List.nth toks 2)))
  | "CLONE" -> Some (Model.OClone (a 1, a 2))
  | "DROP" -> Some (Model.ODrop (a 1))
  | "INTO" -> Some (Model.OIntoInner (a 1))
  | "DROPWITH" -> Some (Model.ODropWith (a 1))
  | "FORCE" -> Some (Model.OForce (a 1))
  | "EXT" -> Some (Model.OExt (a 1))
  | "GET" -> Some (Model.OGet (a 1))
  | "NUM" -> Some Model.ONum
  | "RETAIN" -> Some Model.ORetain
  | "RELEASE" -> Some Model.ORelease
  | "REFCLONE" -> Some Model.ORefClone
  | "REFDROP" -> Some Model.ORefDrop
  | "FIN" | "NEW" -> None
  | o -> failwith ("unknown op " ^ o)

let fmt_ev = function
  | Model.EvDrop p -> "p" ^ string_of_n p
  | Model.EvFn p -> "f" ^ string_of_n p
  | Model.EvData -> "D"

let fmt_log (l : Model.ev list) = if l = [] then "-" else String.concat "," (List.map fmt_ev l)

let fmt_res = function
  | Model.RAddr (p, i) -> Printf.sprintf "a%d.%d" (int_of_nat p) (int_of_nat i)
  | Model.RSome p -> "some" ^ string_of_n p
  | Model.RNone -> "none"
  | Model.RUnit -> "u"
  | Model.RVal (p, rc) -> Printf.sprintf "v%s.%s" (string_of_n p) (string_of_n rc)
  | Model.RNum n -> "n" ^ string_of_n n

let tail spp y log =
  ignore spp;
  Printf.sprintf " items=%s pages=%d log=%s"
    (match Model.obs_items y with Some n -> string_of_n n | None -> "-")
    (int_of_nat (Model.obs_pages y)) (fmt_log log)

(* fields of an implementation result: res, items, pages, log, rdrop *)
let fields (r : string) : string * (string * string) list =
  match split_ws r with
  | [] -> ("", [])
  | res :: kv ->
    ( res,
      List.filter_map
        (fun t -> match String.index_opt t '=' with
           | Some i -> Some (String.sub t 0 i, String.sub t (i + 1) (String.length t - i - 1))
           | None -> None)
        kv )

let is_addr s = String.length s > 1 && s.[0] = 'a' && String.contains s '.'

let () =
  iter_cases stdin (fun c ->
      let ps = param_int c "ps" 64 and isz = param_int c "isz" 16 in
      let spp = Model.page_slots (n_of_int ps) (n_of_int 16) (n_of_int isz) in
      let y = ref (Model.init spp) in
      let bad = ref false in
      (* implementation address of the slot each handle variable refers to *)
      let impl_addr : (int, string) Hashtbl.t = Hashtbl.create 16 in
      let seen_addr : (string, unit) Hashtbl.t = Hashtbl.create 16 in
      let max_pages = ref 1 in
      let fail i kind msg = if not !bad then (bad := true; verdict_bad c i kind msg) in
      let live_vars () = List.map (fun (k, _) -> int_of_nat k) (!y).Model.y_hs in
      (* compares one result; the text differs: which field? *)
      let compare_line i ops impl want =
        if impl <> want then begin
          let ri, fi = fields impl and rw, fw = fields want in
          let g k l = try List.assoc k l with Not_found -> "" in
          let other_fields_equal = List.for_all (fun k -> g k fi = g k fw) [ "items"; "log"; "rdrop" ] in
          let res_compatible = ri = rw || (is_addr ri && is_addr rw) in
          (* fewer live pages than the model while the slab is alive: another paging policy; MORE pages for the
             same history: slots have been lost (they are neither items nor on the free list) *)
          let pages_compatible =
            g "pages" fi = g "pages" fw
            || (g "items" fw <> "-" && (try int_of_string (g "pages" fi) < int_of_string (g "pages" fw) with _ -> false))
          in
          let policy_only = other_fields_equal && res_compatible && pages_compatible in
          fail i (if policy_only then "corr" else "prop")
            (Printf.sprintf "op=[%s] impl=[%s] model=[%s]" ops impl want)
        end
      in
      List.iteri
        (fun i l ->
          if not !bad then
            if l = "HANG" then fail i "prop" "implementation did not terminate (watchdog)"
            else if String.length l >= 5 && String.sub l 0 5 = "PANIC" then fail i "prop" ("implementation panicked: " ^ l)
            else if String.length l >= 5 && String.sub l 0 5 = "CRASH" then fail i "prop" ("implementation crashed: " ^ l)
            else if String.length l >= 4 && String.sub l 0 4 = "MIRI" then fail i "prop" ("miri reports undefined behaviour / a leak: " ^ l)
            else begin
              let ops, impl = split_arrow l in
              let toks = split_ws ops in
              stat ("op_" ^ List.hd toks) 1;
              match List.hd toks with
              | "LAYOUT" -> fail i "corr" ("layout: " ^ impl)
              | "NEW" -> compare_line i ops impl ("u" ^ tail spp !y [])
              | "PAR" ->
                (* threads: the harness checks what every interleaving guarantees (no slot shared by two live
                   items, every payload dropped exactly once, num_items as before); the items created inside
                   are all gone again, the ORDER of the free list afterwards is not determined: only FIN may follow *)
                let ri, _ = fields impl in
                if String.length ri >= 6 && String.sub ri 0 6 = "par-ok" then stat "par_blocks" 1
                else if ri = "dead" && not (Model.obs_alive !y) then ()
                else fail i "prop" (Printf.sprintf "op=[%s] impl=[%s]: concurrent use of the slab" ops impl)
              | "FIN" ->
                if not (Model.obs_alive !y) then compare_line i ops impl "dead"
                else begin
                  (* the harness drops: handle variables ascending, raw references, ArcSlabRefs *)
                  let log = ref [] in
                  let doit o =
                    match Model.step spp !y o with
                    | Model.Done (y', out) -> y := y'; log := !log @ out.Model.o_log
                    | Model.Broken -> fail i "corr" "the model reaches an inconsistent state (Broken) during FIN"
                    | _ -> ()
                  in
                  List.iter (fun h -> doit (Model.ODrop (nat_of_int h))) (List.sort compare (live_vars ()));
                  for _ = 1 to int_of_n (!y).Model.y_tok do doit Model.ORelease done;
                  for _ = 1 to int_of_n (!y).Model.y_refs do doit Model.ORefDrop done;
                  Hashtbl.reset impl_addr;
                  if Model.obs_alive !y then fail i "corr" "the model's slab survives FIN"
                  else begin
                    if Z.sign (z_of_n (Model.obs_leaked !y)) > 0 then stat "cases_with_leaked_items" 1;
                    compare_line i ops impl ("u" ^ tail spp !y !log)
                  end
                end
              | _ ->
                let o = match parse_op toks with Some o -> o | None -> failwith "op" in
                (match Model.step spp !y o with
                 | Model.Invalid -> stat "rejected_invalid" 1; compare_line i ops impl "invalid"
                 | Model.Dead -> stat "rejected_dead" 1; compare_line i ops impl "dead"
                 | Model.Broken -> fail i "corr" (Printf.sprintf "op=[%s]: the model reaches an inconsistent state (Broken)" ops)
                 | Model.Done (y', out) ->
                   let want = fmt_res out.Model.o_res ^ tail spp y' out.Model.o_log in
                   let want =
                     match o, out.Model.o_res with
                     | (Model.OIntoInner _ | Model.OForce _), Model.RSome p -> want ^ " rdrop=p" ^ string_of_n p
                     | _ -> want
                   in
                   (* independent of the model: a slot must not be handed out while a handle refers to it *)
                   (match o with
                    | Model.OAdd (h, _) ->
                      let ri, _ = fields impl in
                      if is_addr ri then begin
                        let holders = List.filter (fun v -> Hashtbl.find_opt impl_addr v = Some ri) (live_vars ()) in
                        if holders <> [] then
                          fail i "prop"
                            (Printf.sprintf "op=[%s] impl=[%s]: slot %s is handed out although handle variable %d still refers to the item in it"
                               ops impl ri (List.hd holders));
                        if Hashtbl.mem seen_addr ri then stat "slot_reused" 1;
                        Hashtbl.replace seen_addr ri ();
                        Hashtbl.replace impl_addr (int_of_nat h) ri
                      end
                    | Model.OClone (h, h2) ->
                      (match Hashtbl.find_opt impl_addr (int_of_nat h) with
                       | Some a -> Hashtbl.replace impl_addr (int_of_nat h2) a
                       | None -> ())
                    | _ -> ());
                   compare_line i ops impl want;
                   if not (Model.obs_alive y') && Model.obs_alive !y then begin
                     stat "slab_destroyed_inside_script" 1;
                     if Z.sign (z_of_n (Model.obs_leaked y')) > 0 then stat "cases_with_leaked_items" 1
                   end;
                   (match out.Model.o_res with Model.RSome _ -> stat "item_returned" 1 | Model.RNone -> stat "into_inner_none" 1 | _ -> ());
                   List.iter (function Model.EvDrop _ -> stat "item_dropped" 1 | Model.EvFn _ -> stat "drop_with_called" 1 | Model.EvData -> ()) out.Model.o_log;
                   y := y';
                   let pg = int_of_nat (Model.obs_pages y') in
                   if pg > !max_pages then max_pages := pg)
            end)
        c.lines;
      stat "cases" 1;
      stat "steps" (List.length c.lines);
      if !max_pages >= 3 then stat "cases_3_or_more_pages" 1;
      if !max_pages >= 10 then stat "cases_10_or_more_pages" 1;
      if not !bad then verdict_ok c);
  dump_stats ()
