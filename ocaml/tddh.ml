(* Package TDDx: replay of the TDD manager state machine (coq/Mgr/TddHist.v, extracted instance
   [tddh_step]: association-list cache that starts empty, operands never swapped) on real TDD managers.

   For a snapshot, ONE client call, a snapshot: the model is seeded with the lifted snapshot taken before
   the call (a TdOK table: [td_ok_b] is evaluated on every snapshot) and performs the call itself.
   Required of the real state afterwards (theorems tddh_step_ok / C03_tdd_hist_step, C05_tdd_hist_gc,
   C06_tdd_hist_observe: observational equality of any two configurations):
   - the same slots are occupied; every slot has the same value table over all 3^n three-valued
     assignments of the variables (extracted [td_vtable] on both tables);
   - the same variable order;
   - GC: exactly the same node ids survive (the model keeps what the handles reach);
   - a call the harness skipped (empty operand slot, unknown variable) is refused by the model and vice versa. *)
open Conv
open Dd_types

let tri_of_tok = function "f" -> Model.TF | "u" -> Model.TU | _ -> Model.TT
let bop_of = function
  | "T3AND" -> Some Model.And | "T3OR" -> Some Model.Or | "T3NAND" -> Some Model.Nand | "T3NOR" -> Some Model.Nor
  | "T3XOR" -> Some Model.Xor | "T3EQUIV" -> Some Model.Equiv | "T3IMP" -> Some Model.Imp
  | "T3IMPS" -> Some Model.ImpStrict | _ -> None
let nslot (t : string) : Model.n = n_of_int (slot_of t)

(* None = not a call of the model; Some r = the model's answer *)
let model_step (pp : psnap) (toks : string list) : Model.snap option option =
  let s = pp.snap in
  match toks with
  | [ "T3CONST"; d; c ] -> Some (Model.tddh_const s (nslot d) (tri_of_tok c))
  | [ "T3VAR"; d; v ] -> Some (Model.tddh_var s (nslot d) (nat (int_of_string v)))
  | [ "T3NOT"; d; a ] -> Some (Model.tddh_not s (nslot d) (nslot a))
  | [ op; d; a; b ] when bop_of op <> None ->
    (match bop_of op with Some o -> Some (Model.tddh_bin s o (nslot d) (nslot a) (nslot b)) | None -> None)
  | [ "T3ITE"; d; a; b; c ] -> Some (Model.tddh_ite s (nslot d) (nslot a) (nslot b) (nslot c))
  | [ "T3COF"; dt; du; de; a ] -> Some (Model.tddh_cof s (nslot dt) (nslot du) (nslot de) (nslot a))
  | [ "CLONE"; d; a ] -> Some (Model.tddh_clone s (nslot d) (nslot a))
  | [ ("DROP" | "DROPT"); a ] -> Some (Model.tddh_drop s (nslot a))
  | [ "DROPALL" ] ->
    Some (List.fold_left (fun acc (sl, _) -> match acc with Some st -> Model.tddh_drop st (n_of_int sl) | None -> None)
            (Some s) pp.handles)
  | [ "GC" ] -> Some (Model.tddh_gc s)
  | [ "VARS"; k ] -> Some (Model.tddh_addvars s (nat (int_of_string k)))
  | _ -> None

let show_table (t : Model.tri option list) =
  String.concat "" (List.map (function Some Model.TF -> "0" | Some Model.TU -> "1" | Some Model.TT -> "2" | None -> "?") t)

(* result: `Skip (not a model call), `Ok, `Bad (kind, message) *)
let check ~(pp : psnap) ~(ps : psnap) (toks : string list) (res : string) =
  let skipped = starts_with res "err skip" in
  if starts_with res "err" && not skipped then `Skip
  else
    match model_step pp toks with
    | None -> `Skip
    | Some None ->
      if skipped then `Ok
      else `Bad ("corr", Printf.sprintf "%s: the TDD history model (tddh_step) refuses the call the implementation performed" (String.concat " " toks))
    | Some (Some _) when skipped ->
      `Bad ("corr", Printf.sprintf "%s: skipped by the harness (empty slot / unknown variable) but accepted by the TDD history model" (String.concat " " toks))
    | Some (Some ms) ->
      let what = String.concat " " toks in
      let mh = List.sort compare (List.map (fun (sl, e) -> (int_of_n sl, e)) ms.Model.s_handles) in
      let rh = List.sort compare ps.handles in
      if List.map fst mh <> List.map fst rh then
        `Bad ("corr", Printf.sprintf "%s: occupied slots differ: model [%s], implementation [%s]" what
                (String.concat " " (List.map (fun (s, _) -> string_of_int s) mh))
                (String.concat " " (List.map (fun (s, _) -> string_of_int s) rh)))
      else if ms.Model.s_l2v <> ps.snap.Model.s_l2v || ms.Model.s_v2l <> ps.snap.Model.s_v2l then
        `Bad ("corr", Printf.sprintf "%s: variable order differs from the model's" what)
      else (
        let bad = ref None in
        List.iter2 (fun (sl, me) (_, re) ->
            if !bad = None then (
              let mt = Model.td_vtable ms me.Model.eref and rt = Model.td_vtable ps.snap re.Model.eref in
              if mt <> rt then
                bad := Some (Printf.sprintf "%s: slot h%d holds %s, the TDD history model says %s" what sl (show_table rt) (show_table mt))))
          mh rh;
        match !bad with
        | Some m -> `Bad ("prop", m)
        | None ->
          if toks = [ "GC" ] then (
            let ids (s : Model.snap) = List.map (fun (id, _) -> Z.to_string (z_of_pos id)) (Model.PositiveMap.elements s.Model.s_nodes) in
            let mi = List.sort compare (ids ms) and ri = List.sort compare (ids ps.snap) in
            if mi <> ri then
              `Bad ("prop", Printf.sprintf "gc(): %d nodes survive, the nodes reachable from the handles are %d (model gc_model)%s"
                      (List.length ri) (List.length mi)
                      (match List.filter (fun i -> not (List.mem i mi)) ri with
                       | i :: _ -> Printf.sprintf "; n%s survives although no handle reaches it" (Z.to_string (Z.pred (Z.of_string i)))
                       | [] -> (match List.filter (fun i -> not (List.mem i ri)) mi with
                           | i :: _ -> Printf.sprintf "; n%s was freed although a handle reaches it" (Z.to_string (Z.pred (Z.of_string i)))
                           | [] -> "")))
            else `Ok)
          else `Ok)
