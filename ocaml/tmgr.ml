(* C05 (terminals): replay of the extracted model of the dynamic terminal manager
   (coq/Mgr/Terminals.v) on MTBDD snapshots.

   A snapshot is lifted into a model state [Model.tst]: inner nodes with the reported
   reference counts, handles as owner tokens (slot number = thread id), the terminal table
   with the counts the invariant prescribes (handles + parent edges; the implementation's
   terminal counts are not readable through the public API) and a free chain of unused slots.
   Between two consecutive snapshots of a case:
     GC        expected ids of the terminals AND of the inner nodes afterwards = what the model's
               [tcollect] (Manager::gc: level sweep, then DynamicTerminalManager::gc) keeps;
     CONSTN    [tstep (TGet v)] on the lifted state: a stored value => the handle must be that
               very terminal; an absent value => a terminal id that was not in use; out of
               memory <=> value absent and all slots in use;
   and on every lifted snapshot the hypothesis [MInv] of the theorems is evaluated ([minv_b]). *)
open Conv
open Dd_types

let sort_ints l = List.sort_uniq compare l

(* slots beyond the first few unused ones are irrelevant for one step: the lifted free chain
   is cut to [maxid + 5] entries (never below the real capacity when the table is nearly full) *)
let eff_cap (tcap : int) (ps : psnap) : int =
  let maxid = List.fold_left (fun m (t, _) -> max m (int_of_n t)) (-1) ps.snap.Model.s_terms in
  min tcap (maxid + 5)

let lift (tcap : int) (ps : psnap) : Model.tst =
  let ct =
    List.map
      (fun (id, nd) -> (id, { Model.cl = nd.Model.nlevel; Model.cch = nd.Model.nchildren; Model.crc = nd.Model.nrc }))
      (Model.PositiveMap.elements ps.snap.Model.s_nodes) in
  let hs = List.map (fun (slot, e) -> (nat slot, e)) ps.handles in
  Model.lift_st ct ps.snap.Model.s_terms hs (nat_of_int (eff_cap tcap ps))

let kind = Model.KMtbdd

let ids_of_terms (ps : psnap) = sort_ints (List.map (fun (t, _) -> int_of_n t) ps.snap.Model.s_terms)
let ids_of_nodes (ps : psnap) =
  sort_ints (List.map (fun (id, _) -> Z.to_int (z_of_pos id)) (Model.PositiveMap.elements ps.snap.Model.s_nodes))

let show_ids pre l = String.concat " " (List.map (fun i -> pre ^ string_of_int i) l)

(* [MInv] on a lifted snapshot *)
let check_inv ~tcap (ps : psnap) : string option =
  let n = Array.length ps.l2v in
  let s = lift tcap ps in
  if Model.minv_b kind (nat n) (nat_of_int (eff_cap tcap ps)) s then None
  else (
    let vals = List.map (fun (_, v) -> int_of_n v) ps.snap.Model.s_terms in
    let why =
      if List.length (sort_ints vals) <> List.length vals then "two stored terminals carry the same value (hash consing)"
      else if List.exists (fun t -> t >= tcap) (ids_of_terms ps) then "a terminal id is not a slot of the store"
      else if not (Model.cinv_b kind (Model.tterms s.Model.ts_tt) (nat n) s.Model.ts_c) then
        "the inner-node invariant cinv_b fails (a child or handle refers to a missing node/terminal, a node is not reduced/ordered/unique, or an inner count is not exact)"
      else "a handle refers to a terminal that is not stored" in
    Some ("minv_b false on the lifted MTBDD snapshot (hypothesis of the C05_term theorems): " ^ why))

(* GC between [pp] and [ps] *)
let check_gc ~tcap ~gcall ~res (pp : psnap) (ps : psnap) : (string * string) option =
  let n = nat (Array.length pp.l2v) in
  let s0 = lift tcap pp in
  (* [gcall]: the harness has already collected once before this GC op *)
  let s = if gcall then Model.tcollect kind n s0 else s0 in
  let exp_count = int_of_nat (Model.tcollect_count kind n s) in
  let got_count = match split_ws res with [ "collected"; c ] -> int_of_string_opt c | _ -> None in
  let exp_t = sort_ints (List.map int_of_n (Model.collect_term_survivors kind n s)) in
  let exp_n = sort_ints (List.map (fun p -> Z.to_int (z_of_pos p)) (Model.collect_node_survivors kind n s)) in
  let got_t = ids_of_terms ps and got_n = ids_of_nodes ps in
  stat "c05t_gc_terms_collected" (List.length pp.snap.Model.s_terms - List.length exp_t);
  stat "c05t_gc_nodes_collected" (pp.nnodes - List.length exp_n);
  if exp_t <> got_t then
    Some ("prop", Printf.sprintf "terminals after gc(): [%s], the model's Manager::gc keeps exactly the referenced ones [%s]"
            (show_ids "t" got_t) (show_ids "t" exp_t))
  else if exp_n <> got_n then
    Some ("prop", Printf.sprintf "inner nodes after gc(): %d stored, the model's collect keeps %d (ids differ)"
            (List.length got_n) (List.length exp_n))
  else if got_count <> None && got_count <> Some exp_count then
    Some ("prop", Printf.sprintf "gc() returned %d, but %d inner nodes and terminals were removed (model: %d)"
            (match got_count with Some c -> c | None -> -1)
            (pp.nnodes - List.length got_n + List.length pp.snap.Model.s_terms - List.length got_t) exp_count)
  else (
    (* survivors keep their value *)
    let bad = List.find_opt (fun (t, v) -> List.assoc_opt t pp.snap.Model.s_terms <> Some v) ps.snap.Model.s_terms in
    match bad with
    | Some (t, _) -> Some ("prop", Printf.sprintf "terminal t%s changed its value across gc()" (string_of_n t))
    | None -> None)

(* CONSTN dst v between [pp] and [ps]; [gcall]: the harness runs gc() before the operation;
   [oom]: the operation reported out of memory *)
let check_get ~tcap ~kname ~gcall ~oom (pp : psnap) (ps : psnap) (dst : int) (v : string) : (string * string) option =
  let n = nat (Array.length pp.l2v) in
  let s0 = lift tcap pp in
  let s = if gcall then Model.tcollect kind n s0 else s0 in
  let code = n_of_int (term_code kname v) in
  let full = int_of_nat (Model.tlen s) >= tcap in
  match Model.tstep kind n s (Model.TGet (nat dst, code)) with
  | None -> Some ("corr", "model: get_edge not enabled")
  | Some (_, Model.TRoom) ->
    stat "c05t_get_oom" 1;
    if oom then None
    else Some ("corr", "model: get_edge out of memory (value absent, all slots in use) but the implementation returned a terminal")
  | Some (_, Model.TRterm x) ->
    if oom then
      Some ("prop", Printf.sprintf "constant %s: OutOfMemory although %s" v
              (if Model.get_outcome s code <> None then "a terminal with this value is stored" else "not all terminal slots are in use"))
    else (
      ignore full;
      match List.assoc_opt dst ps.handles with
      | None -> Some ("corr", "no handle in the destination slot after CONSTN")
      | Some e ->
        stat (if Model.get_outcome s code <> None then "c05t_get_live" else "c05t_get_new") 1;
        (match e.Model.eref, Model.get_outcome s code with
         | Model.RT y, Some live ->
           if int_of_n y <> int_of_n live then
             Some ("prop", Printf.sprintf "constant %s: terminal t%s returned although the live terminal t%s carries this value (hash consing)"
                     v (string_of_n y) (string_of_n live))
           else None
         | Model.RT y, None ->
           ignore x;
           if List.exists (fun (t, _) -> int_of_n t = int_of_n y) s.Model.ts_tt then
             Some ("prop", Printf.sprintf "constant %s: no terminal with this value is stored, but the id t%s of a stored terminal was returned" v (string_of_n y))
           else if List.assoc_opt y ps.snap.Model.s_terms <> Some code then
             Some ("prop", Printf.sprintf "constant %s: the new terminal t%s does not carry the value" v (string_of_n y))
           else None
         | Model.RN _, _ -> Some ("prop", "constant returned an inner node")))
  | Some (_, _) -> Some ("corr", "model: unexpected result of get_edge")
