(* ZBDD: the manager itself owns one edge to each node of the tautology chain
   (taut(l) = node at level l with hi = lo = taut(l+1), taut(n) = Base).  Those
   references are part of the exact count (C05). *)
let extra_edges (kname : string) (ps : Dd_types.psnap) : Model.edge list =
  if kname <> "zbdd" then []
  else begin
    let n = Array.length ps.Dd_types.l2v in
    let base =
      List.find_opt (fun (_, v) -> Conv.int_of_n v = 1) ps.Dd_types.snap.Model.s_terms in
    match base with
    | None -> []
    | Some (bid, _) ->
      let nodes = Model.PositiveMap.elements ps.Dd_types.snap.Model.s_nodes in
      let prev = ref { Model.eref = Model.RT bid; Model.etag = false } in
      let acc = ref [] in
      (try
         for l = n - 1 downto 0 do
           match
             List.find_opt
               (fun (_, nd) ->
                 Conv.int_of_nat nd.Model.nlevel = l
                 && (match nd.Model.nchildren with
                     | [ a; b ] -> Model.edge_eqb a !prev && Model.edge_eqb b !prev
                     | _ -> false))
               nodes
           with
           | Some (id, _) ->
             let e = { Model.eref = Model.RN id; Model.etag = false } in
             acc := e :: !acc;
             prev := e
           | None -> raise Exit
         done
       with Exit -> ());
      !acc
  end
