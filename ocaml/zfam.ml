(* C09: the set-family operations of the ZBDD kind.
   - the expected family of every operation is computed by the *extracted* spec layer
     (coq/DD/FamSpec.v: f_bin, f_sub, f_make_node, f_singleton, f_empty, f_base) on the
     operands' families, in the level reading of the current snapshot, and compared with the
     family of the real result (extracted famz) by the extracted feq_b;
   - the extracted model (coq/DD/ZbddOps.v: zapply, zsubset_top, zsingleton, zmake_node,
     zempty, zbase) is run on the lifted snapshot with the operands' real edges; its result
     must have the spec's family (instance of the theorems of coq/Props/C09.v) and must be
     the very edge the implementation returned (both live in the same unique table);
   - the Boolean view of a handle (extracted semz through sem_edge) must be the extracted
     characteristic function fam_bool of its family (theorem C09_bool_view_sem_edge). *)
open Conv
open Dd_types

type opnd = { ofam : int list;                 (* family as sorted list of variable bitmasks *)
              oedge : Model.edge option }      (* the operand's edge in the current snapshot, if it still
                                                  denotes that family *)

(* variable bitmask -> increasing list of levels, and back (order of snapshot [ps]) *)
let levels_of_mask (ps : psnap) (m : int) : Model.nat list =
  let n = Array.length ps.v2l in
  let ls = ref [] in
  for v = 0 to n - 1 do if (m lsr v) land 1 = 1 then ls := ps.v2l.(v) :: !ls done;
  List.map nat (List.sort compare !ls)

let mask_of_levels (ps : psnap) (s : Model.nat list) : int =
  List.fold_left (fun acc l -> acc lor (1 lsl ps.l2v.(int_of_nat l))) 0 s

let fam_levels ps (f : int list) : Model.nat list list = List.map (levels_of_mask ps) f
let fam_masks ps (f : Model.nat list list) : int list = List.sort_uniq compare (List.map (mask_of_levels ps) f)
let show_masks (l : int list) = String.concat "," (List.map string_of_int l)

let gt_none (_ : Model.ref) (_ : Model.ref) = false
let gt_id (a : Model.ref) (b : Model.ref) =
  match a, b with Model.RN x, Model.RN y -> Z.gt (z_of_pos x) (z_of_pos y) | _ -> false

let zop_of = function
  | "UNION" -> Some Model.ZUnion | "INTSEC" -> Some Model.ZIntsec | "DIFF" -> Some Model.ZDiff | _ -> None
let zsub_of = function
  | "SUBSET0" -> Some Model.ZSubset0 | "SUBSET1" -> Some Model.ZSubset1 | "CHANGE" -> Some Model.ZChange | _ -> None

let ref_eq (a : Model.ref) (b : Model.ref) = Model.edge_eqb { Model.eref = a; Model.etag = false } { Model.eref = b; Model.etag = false }

let show_ref (r : Model.ref) = show_edge { Model.eref = r; Model.etag = false }

(* the model on the lifted snapshot; the cache instance and the operand order vary with the step
   (the theorems hold for every lossy cache and every order) *)
let run_model (ps : psnap) (step : int) (op : string) (edges : Model.ref list) (v : int)
  : (Model.snap * Model.ref) option =
  let fuel = nat (Array.length ps.l2v + 1) in
  let s = ps.snap in
  let strip = function Some ((s', _), r) -> Some (s', r) | None -> None in
  match op, edges with
  | ("UNION" | "INTSEC" | "DIFF"), [ a; b ] ->
    let o = (match zop_of op with Some o -> o | None -> assert false) in
    (match step mod 3 with
     | 0 -> strip (Model.zapply gt_none Model.zac_get Model.zac_add fuel s [] o a b)
     | 1 -> strip (Model.zapply gt_id Model.zac_get Model.zac_add fuel s [] o a b)
     | _ -> strip (Model.zapply gt_id Model.znc_get Model.znc_add fuel s () o a b))
  | ("SUBSET0" | "SUBSET1" | "CHANGE"), [ a ] ->
    let o = (match zsub_of op with Some o -> o | None -> assert false) in
    if step mod 2 = 0 then strip (Model.zsubset_top Model.zac_get Model.zac_add fuel s [] o a (nat v))
    else strip (Model.zsubset_top Model.znc_get Model.znc_add fuel s () o a (nat v))
  | "SINGLETON", [] -> Model.zsingleton s (nat v)
  | "EMPTY", [] -> (match Model.zempty s with Some r -> Some (s, r) | None -> None)
  | "BASE", [] -> (match Model.zbase s with Some r -> Some (s, r) | None -> None)
  | "MAKENODE", [ hi; lo ] ->
    (match Model.zsingleton s (nat v) with
     | Some (s1, var) -> Model.zmake_node s1 var hi lo
     | None -> None)
  | _ -> None

(* [opnd h]: operand family (as captured when the operation was issued) and edge;
   [dst]: family and edge of the result handle in the current snapshot *)
let check_op ~(ps : psnap) ~(zok : bool) ~(opnd : string -> opnd option) ~(dst : opnd option)
    ~(fail : int -> string -> string -> string -> unit) ~(check : string -> unit) ~(digest : Buffer.t)
    (pstep : int) (what : string) (op : string) (rest : string list) : unit =
  let n = Array.length ps.l2v in
  let var_ok v = v >= 0 && v < n in
  (* operands, variable *)
  let args, v =
    match op, rest with
    | "SINGLETON", [ v ] -> Some [], int_of_string v
    | ("EMPTY" | "BASE"), _ -> Some [], 0
    | ("SUBSET0" | "SUBSET1" | "CHANGE"), [ a; v ] -> Option.map (fun x -> [ x ]) (opnd a), int_of_string v
    | ("UNION" | "INTSEC" | "DIFF"), [ a; b ] ->
      (match opnd a, opnd b with Some x, Some y -> Some [ x; y ] | _ -> None), 0
    | "MAKENODE", [ v; hi; lo ] ->
      (match opnd hi, opnd lo with Some x, Some y -> Some [ x; y ] | _ -> None), int_of_string v
    | _ -> None, 0 in
  match args, dst with
  | Some args, Some d when var_ok v || n = 0 || List.mem op [ "EMPTY"; "BASE"; "UNION"; "INTSEC"; "DIFF" ] ->
    let vl = if var_ok v then ps.v2l.(v) else 0 in
    let fl = List.map (fun o -> fam_levels ps o.ofam) args in
    (* make_node is only specified when the variable is above everything hi and lo mention *)
    let specified =
      op <> "MAKENODE"
      || List.for_all (fun f -> List.for_all (fun s -> List.for_all (fun l -> int_of_nat l > vl) s) f) fl in
    if not specified then stat "c09_makenode_unspecified" 1
    else begin
      let exp =
        match op, fl with
        | "SINGLETON", [] -> Model.f_singleton (nat vl)
        | "EMPTY", [] -> Model.f_empty
        | "BASE", [] -> Model.f_base
        | ("SUBSET0" | "SUBSET1" | "CHANGE"), [ f ] ->
          (match zsub_of op with Some o -> Model.f_sub o (nat vl) f | None -> [])
        | ("UNION" | "INTSEC" | "DIFF"), [ f; g ] ->
          (match zop_of op with Some o -> Model.f_bin o f g | None -> [])
        | "MAKENODE", [ hi; lo ] -> Model.f_make_node (nat vl) hi lo
        | _ -> [] in
      let got = fam_levels ps d.ofam in
      (* an independent transcription of the documentation on variable bitmasks: cross-check of the spec layer *)
      let fm = List.map (fun o -> o.ofam) args in
      let oracle =
        match op, fm with
        | "SINGLETON", [] -> [ 1 lsl v ]
        | "EMPTY", [] -> []
        | "BASE", [] -> [ 0 ]
        | "SUBSET0", [ fa ] -> List.filter (fun s -> (s lsr v) land 1 = 0) fa
        | "SUBSET1", [ fa ] ->
          List.sort_uniq compare (List.filter_map (fun s -> if (s lsr v) land 1 = 1 then Some (s land lnot (1 lsl v)) else None) fa)
        | "CHANGE", [ fa ] -> List.sort_uniq compare (List.map (fun s -> s lxor (1 lsl v)) fa)
        | "UNION", [ x; y ] -> List.sort_uniq compare (x @ y)
        | "INTSEC", [ x; y ] -> List.filter (fun s -> List.mem s y) x
        | "DIFF", [ x; y ] -> List.filter (fun s -> not (List.mem s y)) x
        | "MAKENODE", [ x; y ] -> List.sort_uniq compare (List.map (fun s -> s lor (1 lsl v)) x @ y)
        | _ -> [] in
      if fam_masks ps exp <> oracle then
        fail pstep "C09" "corr"
          (Printf.sprintf "%s: spec layer gives {%s}, the independent oracle {%s}" what (show_masks (fam_masks ps exp)) (show_masks oracle));
      check "C09";
      Buffer.add_string digest (Printf.sprintf "%d:fam%s;" pstep (show_masks d.ofam));
      if not (Model.feq_b got exp) then
        fail pstep "C09" "prop"
          (Printf.sprintf "%s: family {%s}, expected {%s}" what (show_masks d.ofam) (show_masks (fam_masks ps exp)))
      else if not zok then ()
      else begin
        (* the model on the same table and the same operand edges *)
        let edges = List.map (fun o -> match o.oedge with Some e -> Some e.Model.eref | None -> None) args in
        if List.for_all (fun x -> x <> None) edges then begin
          let edges = List.filter_map (fun x -> x) edges in
          stat "c09_model_runs" 1;
          match run_model ps pstep op edges v with
          | None ->
            fail pstep "C09" "corr" (Printf.sprintf "%s: the model is undefined where the implementation returned a result" what)
          | Some (s', r) ->
            (match Model.fam_of s' r with
             | None -> fail pstep "C09" "corr" (Printf.sprintf "%s: the model's result has no family" what)
             | Some rf ->
               if not (Model.feq_b rf exp) then
                 fail pstep "C09" "corr"
                   (Printf.sprintf "%s: model family {%s}, spec {%s}" what (show_masks (fam_masks ps rf)) (show_masks (fam_masks ps exp)))
               else
                 (match d.oedge with
                  | Some e ->
                    stat "c09_model_edge_cmp" 1;
                    if not (ref_eq r e.Model.eref) then
                      fail pstep "C09" "corr"
                        (Printf.sprintf "%s: model returns edge %s, implementation %s (same table)" what (show_ref r) (show_edge e))
                  | None -> ()))
        end else stat "c09_model_skipped" 1
      end
    end
  | _ -> stat "unresolved" 1

(* Boolean view = characteristic function of the family, by the extracted fam_bool *)
let bool_view_ok (ps : psnap) (fam : int list) (t : vt) : bool =
  let n = Array.length ps.l2v in
  let fl = fam_levels ps fam in
  let ok = ref true in
  for a = 0 to (1 lsl n) - 1 do
    let c (lvl : Model.nat) : Model.nat =
      let l = int_of_nat lvl in
      if l < n && (a lsr ps.l2v.(l)) land 1 = 1 then Model.O else Model.S Model.O in
    let b = Model.fam_bool (nat n) fl c in
    if (if b then 1 else 0) <> t.(a) then ok := false
  done;
  !ok

(* the tautology chain (ZBDDCache::post_reorder_mut): rebuilding it on the lifted snapshot with the
   extracted ztaut_chain must not create a node (the manager holds the whole chain after init,
   add_vars and reordering) and taut(0) must denote all subsets of the variables.
   Returns the chain (index = level) or an error text. *)
let taut_chain (ps : psnap) : (Model.ref list, string) result =
  let n = Array.length ps.l2v in
  match Model.ztaut_chain ps.snap with
  | None -> Error "ztaut_chain undefined (no Base terminal)"
  | Some (s', ch) ->
    let cnt s = List.length (Model.PositiveMap.elements s.Model.s_nodes) in
    if cnt s' <> cnt ps.snap then
      Error (Printf.sprintf "rebuilding the tautology chain creates %d node(s): the manager's chain is incomplete" (cnt s' - cnt ps.snap))
    else if List.length ch <> n + 1 then Error "chain length"
    else
      (match Model.fam_of s' (List.hd ch) with
       | Some f when n > 10 || Model.feq_b f (Model.f_powerset Model.O (nat n)) -> Ok ch
       | _ -> Error "taut(0) of the model does not denote all subsets")

(* add_vars(k) between two consecutive snapshots [pp] and [ps]: the extracted zadd_vars on the lifted
   pre-state must give the implementation's variable order and keep the family of every handle *)
let add_vars_check (pp : psnap) (ps : psnap) (k : int) : string option =
  match Model.zadd_vars pp.snap (nat k) with
  | None -> Some "zadd_vars undefined"
  | Some (s', _) ->
    let ints l = List.map int_of_nat l in
    if ints s'.Model.s_v2l <> Array.to_list ps.v2l || ints s'.Model.s_l2v <> Array.to_list ps.l2v then
      Some (Printf.sprintf "variable order after add_vars(%d): model var_to_level [%s], implementation [%s]" k
              (String.concat " " (List.map string_of_int (ints s'.Model.s_v2l)))
              (String.concat " " (List.map string_of_int (Array.to_list ps.v2l))))
    else begin
      let bad = ref None in
      List.iter
        (fun (slot, e) ->
          match List.assoc_opt slot ps.handles with
          | Some e' ->
            stat "c09_addvars_handles" 1;
            (match Model.fam_of s' e.Model.eref, Model.fam_of ps.snap e'.Model.eref with
             | Some f, Some g when Model.feq_b f g -> ()
             | _ -> bad := Some (Printf.sprintf "h%d: family after add_vars(%d) differs between model and implementation" slot k))
          | None -> ())
        pp.handles;
      !bad
    end
