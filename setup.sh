#!/bin/sh
# Builds everything the checks need from files on disk (offline).
set -e
cd "$(dirname "$0")"
export CARGO_NET_OFFLINE=true
mkdir -p .cache
python3 -c "import sys; sys.path.insert(0,'lib'); import vf; vf.coq_ensure_makefile()"
# -k: a file that does not compile must not keep the others from being built; every check
# rebuilds and audits its own Props target anyway
(cd coq && timeout 3000 make -j16 -k) || echo "[setup] warning: some Coq files failed to build"
python3 - <<'PY'
import sys, os
sys.path.insert(0, "lib"); sys.path.insert(0, ".")
import vf, importlib, glob
for f in sorted(glob.glob("checks/C*.py")):
    pid = os.path.basename(f)[:-3]
    mod = importlib.import_module("checks." + pid)
    ctx = vf.Ctx(pid, "quick", 1)
    if hasattr(mod, "build"):
        print("[setup] building", pid, flush=True)
        mod.build(ctx)
PY
echo "[setup] done"
