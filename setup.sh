#!/bin/sh
# Builds everything the checks need from files on disk (offline).
set -e
cd "$(dirname "$0")"
export CARGO_NET_OFFLINE=true
mkdir -p .cache
python3 -c "import sys; sys.path.insert(0,'lib'); import vf; vf.coq_ensure_makefile()"
# -k: a file that does not compile must not keep the others from being built; every check
# rebuilds and audits its own Props target anyway
(cd coq && timeout 3000 make -j16 -k) > .cache/setup-coq.log 2>&1 || echo "[setup] warning: some Coq files failed to build (see .cache/setup-coq.log)"
# compiled files left over from an interrupted or concurrent build can be mutually inconsistent
# ("makes inconsistent assumptions over library ..."): then everything is rebuilt from clean
if grep -q "inconsistent assumptions" .cache/setup-coq.log; then
  echo "[setup] inconsistent .vo files: rebuilding the Rocq development from clean"
  find coq -name '*.vo' -o -name '*.vok' -o -name '*.vos' -o -name '*.glob' -o -name '.*.aux' | xargs rm -f
  rm -rf .cache/ocaml
  (cd coq && timeout 3000 make -j16 -k) > .cache/setup-coq.log 2>&1 || echo "[setup] warning: some Coq files failed to build (see .cache/setup-coq.log)"
fi
tail -3 .cache/setup-coq.log
python3 - <<'PY'
import sys, os
sys.path.insert(0, "lib"); sys.path.insert(0, ".")
import vf, importlib, glob, traceback
failed = []
msgs = []
for f in sorted(glob.glob("checks/C*.py")):
    pid = os.path.basename(f)[:-3]
    try:
        mod = importlib.import_module("checks." + pid)
        ctx = vf.Ctx(pid, "quick", 1)
        if hasattr(mod, "build"):
            print("[setup] building", pid, flush=True)
            mod.build(ctx)
    except Exception as e:           # the check itself will report what is wrong when it runs
        failed.append(pid)
        msgs.append(str(e))
        print(f"[setup] warning: build of {pid} failed: {str(e)[-600:]}", flush=True)
if failed:
    # one more attempt after a clean rebuild of the extraction caches (stale .vo / driver); when compiled
    # files turned out to be mutually inconsistent the whole Rocq development is rebuilt from clean first
    import shutil, subprocess
    shutil.rmtree(os.path.join(".cache", "ocaml"), ignore_errors=True)
    if any("inconsistent assumptions" in m for m in msgs):
        print("[setup] inconsistent .vo files: rebuilding the Rocq development from clean", flush=True)
        subprocess.run("find coq -name '*.vo' -o -name '*.vok' -o -name '*.vos' -o -name '*.glob' | xargs rm -f", shell=True)
        subprocess.run("cd coq && timeout 3000 make -j16 -k > ../.cache/setup-coq.log 2>&1", shell=True)
    for pid in failed:
        try:
            mod = importlib.import_module("checks." + pid)
            mod.build(vf.Ctx(pid, "quick", 1))
            print("[setup] second attempt ok:", pid, flush=True)
        except Exception as e:
            print(f"[setup] warning: build of {pid} failed again: {str(e)[-300:]}", flush=True)
PY
echo "[setup] done"
