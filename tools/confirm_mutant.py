#!/usr/bin/env python3
"""Independent confirmation of a seeded change delivered by a sub-agent in /tmp/mutout/<ID>/:
   tools/confirm_mutant.py <src-dir> <name>
 1. scratch worktree of /repo HEAD, demo copied in -> demo must PASS
 2. patch applied -> demo must FAIL, the existing test suite must still PASS
 writes <src-dir>/confirm.json, copies the change to /verif/seeded/<name>/ when all three hold, removes the worktree."""
import json, os, shutil, subprocess, sys, time

def run(cmd, cwd, env, timeout=2400):
    try:
        p = subprocess.run(cmd, cwd=cwd, env=env, shell=True, stdout=subprocess.PIPE, stderr=subprocess.STDOUT, timeout=timeout)
        return p.returncode, p.stdout.decode("utf-8", "replace")
    except subprocess.TimeoutExpired as e:
        return 124, (e.stdout or b"").decode("utf-8", "replace") + "\n[timeout]"

def main():
    src, name = sys.argv[1], sys.argv[2]
    meta = json.load(open(os.path.join(src, "meta.json")))
    wt = f"/tmp/mw/confirm-{name}"
    env = dict(os.environ, CARGO_NET_OFFLINE="true", CARGO_TARGET_DIR="/tmp/mw/confirm-target")
    subprocess.run(["git", "-C", "/repo", "worktree", "remove", "--force", wt], stdout=subprocess.DEVNULL, stderr=subprocess.DEVNULL)
    subprocess.check_call(["git", "-C", "/repo", "worktree", "add", "--detach", wt, "HEAD"], stdout=subprocess.DEVNULL, stderr=subprocess.DEVNULL)
    res = {"repo_head": subprocess.check_output(["git", "-C", "/repo", "rev-parse", "HEAD"]).decode().strip()}
    try:
        demo_rel = meta.get("demo_path_in_repo")
        demo_cmd = meta.get("demo_cmd")
        for f in os.listdir(src):
            if f.startswith("demo"):
                if f == "demo.rs" and demo_rel:
                    os.makedirs(os.path.dirname(os.path.join(wt, demo_rel)), exist_ok=True)
                    shutil.copy(os.path.join(src, f), os.path.join(wt, demo_rel))
                else:
                    shutil.copy(os.path.join(src, f), wt)
        import re as _re
        demo_cmd = _re.sub(r"/tmp/mut[a-z]?/[A-Za-z0-9]+", wt, demo_cmd)
        import shlex
        demo_cmd = "timeout 900 bash -c " + shlex.quote(demo_cmd)
        rc0, out0 = run(demo_cmd, wt, env)
        res["demo_without_change_rc"] = rc0
        subprocess.check_call(["git", "-C", wt, "apply", os.path.abspath(os.path.join(src, "patch.diff"))])
        rc1, out1 = run(demo_cmd, wt, env)
        res["demo_with_change_rc"] = rc1
        res["demo_with_change_tail"] = out1[-600:]
        # the existing suite (demo file moved away)
        if demo_rel and os.path.exists(os.path.join(wt, demo_rel)):
            os.remove(os.path.join(wt, demo_rel))
        rc2, out2 = run("cargo test --workspace --no-fail-fast --offline 2>&1 | grep -E '^test result|FAILED|failed' ", wt, env)
        passed = sum(int(l.split(" passed")[0].split()[-1]) for l in out2.split("\n") if l.startswith("test result"))
        failed = sum(int(l.split(" failed")[0].split()[-1]) for l in out2.split("\n") if l.startswith("test result"))
        res["suite_with_change"] = {"passed": passed, "failed": failed}
        res["confirmed"] = (rc0 == 0 and rc1 != 0 and failed == 0 and passed >= 86)
    finally:
        subprocess.run(["git", "-C", "/repo", "worktree", "remove", "--force", wt], stdout=subprocess.DEVNULL, stderr=subprocess.DEVNULL)
    res["at"] = time.strftime("%Y-%m-%dT%H:%M:%S")
    json.dump(res, open(os.path.join(src, "confirm.json"), "w"), indent=1)
    print(name, json.dumps({k: v for k, v in res.items() if k != "demo_with_change_tail"}))
    if res.get("confirmed"):
        dst = os.path.join(os.path.dirname(os.path.dirname(os.path.abspath(__file__))), "seeded", name)
        os.makedirs(dst, exist_ok=True)
        for f in os.listdir(src):
            if f.startswith("demo") or f == "patch.diff":
                shutil.copy(os.path.join(src, f), dst)
        meta["confirmed_by_orchestrator"] = res
        json.dump(meta, open(os.path.join(dst, "meta.json"), "w"), indent=1)

if __name__ == "__main__":
    main()
