#!/usr/bin/env python3
"""Prints the generated tables of DESIGN.md section 9 (status per property) from MANIFEST.json,
checks/*.py (META), evidence/*.json and coq/Props/*.v:   tools/design_status.py > notes/STATUS.md"""
import glob
import importlib
import json
import os
import re
import sys

ROOT = os.path.dirname(os.path.dirname(os.path.abspath(__file__)))
sys.path.insert(0, os.path.join(ROOT, "lib"))
sys.path.insert(0, ROOT)
import vf  # noqa: E402


def loc(paths):
    n = 0
    for p in paths:
        try:
            n += sum(1 for _ in open(p, errors="replace"))
        except OSError:
            pass
    return n


def main():
    man = json.load(open(os.path.join(ROOT, "MANIFEST.json")))
    props = [json.loads(l) for l in open(os.path.join(ROOT, "properties.jsonl"))]
    claimed = {c["property_id"]: c for c in man["checks"]}
    print("| id | claimed | theorems (Props/<id>.v) | axioms (Print Assumptions) | quick: cases / wall | model files exercised by the correspondence run (extraction) |")
    print("|---|---|---|---|---|---|")
    for p in props:
        pid = p["id"]
        pv = os.path.join(ROOT, "coq", "Props", pid + ".v")
        nthm = 0
        if os.path.exists(pv):
            src = vf.strip_coq_comments(open(pv).read())
            nthm = len(re.findall(r"^\s*(?:Theorem|Lemma|Corollary)\s+", src, re.M))
        ev = {}
        ep = os.path.join(ROOT, "evidence", pid + ".json")
        if os.path.exists(ep):
            ev = json.load(open(ep))
        cov = ev.get("coverage", {})
        ax = cov.get("axioms_reported_by_Print_Assumptions", [])
        ax_s = "none (closed under the global context)" if not ax else ", ".join(a.split(".")[-1] for a in ax)
        ex = []
        for f in sorted(glob.glob(os.path.join(ROOT, "coq", "Extract", "*.v"))):
            t = open(f).read()
            ck = os.path.join(ROOT, "checks", pid + ".py")
            if os.path.exists(ck) and os.path.basename(f) in open(ck).read() + open(os.path.join(ROOT, "checks", "ddcommon.py")).read() * (
                    "ddcommon" in open(ck).read()):
                mods = sorted(set(re.findall(r"\b([A-Z][A-Za-z0-9]+)\.[a-z_]", t.split("Extraction \"model.ml\"")[-1])))
                ex.append(os.path.basename(f) + ": " + " ".join(mods))
        print(f"| {pid} | {'yes' if pid in claimed else 'no'} | {nthm} | {ax_s if nthm else '-'} | "
              f"{cov.get('evaluations', '-')} / {ev.get('wall_s', '-')} s | {'; '.join(ex) or '-'} |")
    print()
    vs = glob.glob(os.path.join(ROOT, "coq", "*", "*.v"))
    print(f"Rocq development: {len(vs)} files, {loc(vs)} lines; OCaml drivers: {loc(glob.glob(os.path.join(ROOT, 'ocaml', '*.ml')))} lines; "
          f"Rust harness: {loc(glob.glob(os.path.join(ROOT, 'harness*', 'src', '**', '*.rs'), recursive=True))} lines; "
          f"Python: {loc(glob.glob(os.path.join(ROOT, 'lib', '*.py')) + glob.glob(os.path.join(ROOT, 'checks', '*.py')) + glob.glob(os.path.join(ROOT, 'tools', '*.py')))} lines.")


if __name__ == "__main__":
    main()
