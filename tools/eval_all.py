#!/usr/bin/env python3
"""Runs the checks against every seeded change in /verif/seeded (tools/mutant_eval.py, scratch
worktrees, /repo untouched) and writes /verif/seeded/RESULTS.json + RESULTS.md:

    tools/eval_all.py [-j N] [ID ...]        # default: all seeded changes, 3 at a time

For each seeded change the check of its own property is run, plus the neighbouring checks
listed in PLAN (properties whose observables the change is likely to disturb)."""
import json
import os
import re
import subprocess
import sys
from concurrent.futures import ThreadPoolExecutor

ROOT = os.path.dirname(os.path.dirname(os.path.abspath(__file__)))
PLAN = {
    "C01": ["C01", "C17", "C03", "C05"], "C02": ["C02"], "C03": ["C03", "C08"], "C04": ["C04"],
    "C05": ["C05", "C10"], "C06": ["C06", "C10"], "C07": ["C07"], "C08": ["C08", "C01"],
    "C09": ["C09"], "C10": ["C10", "C06"], "C11": ["C11"], "C12": ["C12"], "C13": ["C13"],
    "C14": ["C14", "C05"], "C15": ["C15"], "C16": ["C16"], "C17": ["C17"], "C18": ["C18"],
    "C19": ["C19"], "C20": ["C20", "C08"],
    # per seeded change (overrides the per-property default)
    "C01b": ["C01", "C10", "C03"], "C05b": ["C05", "C14"], "C14b": ["C14", "C05"], "C20b": ["C20", "C12"],
    "C10b": ["C10"], "C06b": ["C06"], "C08b": ["C08"], "C03b": ["C03", "C04"],
    "C01c": ["C01", "C08", "C03"], "C03c": ["C03", "C17", "C01"], "C05c": ["C05", "C14"], "C06c": ["C06", "C04", "C09"],
    "C13c": ["C13", "C12"], "C12": ["C12"],
    "C01e": ["C01", "C05", "C14"], "C03e": ["C03", "C08"], "C05e": ["C05", "C15"], "C06e": ["C06", "C04"], "C09e": ["C09", "C02"],
    "C13e": ["C13"], "C19e": ["C19", "C16"], "C07e": ["C07", "C10"],
    "C02f": ["C02", "C04"], "C04f": ["C04"], "C08f": ["C08", "C17", "C01"], "C10f": ["C10", "C01"], "C11f": ["C11"], "C12f": ["C12"],
    "C14f": ["C14", "C05"], "C15f": ["C15"], "C16f": ["C16"], "C17f": ["C17"], "C18f": ["C18"], "C20f": ["C20", "C16", "C09"],
    "C01g": ["C01", "C08", "C15"], "C03g": ["C03", "C08"], "C04g": ["C04", "C06"], "C05g": ["C05", "C06", "C09"], "C06g": ["C06", "C09"],
    "C07g": ["C07", "C14", "C05"], "C09g": ["C09"], "C13g": ["C13", "C12"], "C14g": ["C14", "C05"], "C16g": ["C16"], "C19g": ["C19"],
    "C20g": ["C20", "C06"],
    "C02h": ["C02", "C16", "C09"], "C08h": ["C08", "C12", "C13"], "C10h": ["C10", "C06"], "C11h": ["C11"], "C12h": ["C12"], "C15h": ["C15"],
    "C17h": ["C17"], "C18h": ["C18"],
    "C01i": ["C01", "C03", "C09"], "C05i": ["C05", "C20", "C16"], "C06i": ["C06", "C11"], "C07i": ["C07", "C09", "C20"], "C14i": ["C14", "C05", "C10"],
    "C20i": ["C20", "C08", "C03"],
    "C14d": ["C14", "C05"], "C08d": ["C08", "C03"], "C20d": ["C20", "C09"], "C16d": ["C16"],
}


def one(mid):
    d = os.path.join(ROOT, "seeded", mid)
    checks = [c for c in PLAN.get(mid, PLAN.get(mid[:3], [mid[:3]])) if os.path.exists(os.path.join(ROOT, "checks", c + ".py"))]
    p = subprocess.run([sys.executable, os.path.join(ROOT, "tools", "mutant_eval.py"), d] + checks,
                       stdout=subprocess.PIPE, stderr=subprocess.STDOUT)
    res = {}
    for l in p.stdout.decode("utf-8", "replace").split("\n"):
        m = re.match(r"^(\S+) (C\d\d) rc=(-?\d+) violations=(\d+) nfif=(\d+) wall=(\d+)s first=(.*)$", l)
        if m:
            res[m.group(2)] = {"rc": int(m.group(3)), "violations": int(m.group(4)), "no_failing_input_found": int(m.group(5)),
                               "wall_s": int(m.group(6)), "first_signature": m.group(7)[:240]}
    print(mid, {k: ("CAUGHT" if v["rc"] == 1 else "missed" if v["rc"] == 0 else "error") for k, v in res.items()}, flush=True)
    return mid, res


def main():
    args = sys.argv[1:]
    j = 3
    if "-j" in args:
        i = args.index("-j"); j = int(args[i + 1]); del args[i:i + 2]
    ids = args or sorted(x for x in os.listdir(os.path.join(ROOT, "seeded")) if os.path.isdir(os.path.join(ROOT, "seeded", x)))
    out_json = os.path.join(ROOT, "seeded", "RESULTS.json")
    import fcntl
    results = {}
    with ThreadPoolExecutor(max_workers=j) as ex:
        for mid, res in ex.map(one, ids):
            # merge under a lock: several eval_all runs may be in flight
            with open(out_json + ".lock", "w") as lk:
                fcntl.flock(lk, fcntl.LOCK_EX)
                results = json.load(open(out_json)) if os.path.exists(out_json) else {}
                if res:
                    results[mid] = res
                json.dump(results, open(out_json + ".tmp", "w"), indent=1, sort_keys=True)
                os.replace(out_json + ".tmp", out_json)
    head = subprocess.check_output(["git", "-C", ROOT, "rev-parse", "--short", "HEAD"]).decode().strip()
    with open(os.path.join(ROOT, "seeded", "RESULTS.md"), "w") as f:
        f.write("# Seeded changes versus the checks\n\n")
        f.write(f"Written by tools/eval_all.py (quick tier, seed 1, proof gate skipped; /verif at {head} or later).\n"
                "CAUGHT = the check exits 1 with a VIOLATION line; missed = exits 0; error = machinery failure.\n\n")
        f.write("| seeded change | breaks | what it needs to manifest | check: outcome (first reported signature) |\n|---|---|---|---|\n")
        for mid in sorted(results):
            mp = os.path.join(ROOT, "seeded", mid, "meta.json")
            meta = json.load(open(mp)) if os.path.exists(mp) else {}
            cells = []
            for c, v in sorted(results[mid].items()):
                o = "CAUGHT" if v["rc"] == 1 else "missed" if v["rc"] == 0 else "error"
                sig = v["first_signature"].replace("|", "/")[:110]
                cells.append(f"{c}: **{o}**" + (f" (`{sig}`)" if o == "CAUGHT" else ""))
            need = (meta.get("needs_to_manifest", "") or "").replace("|", "/").replace("\n", " ")[:260]
            f.write(f"| seeded/{mid} | {meta.get('property', mid[:3])} | {need} | {'; '.join(cells)} |\n")


if __name__ == "__main__":
    main()
