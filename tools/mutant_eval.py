#!/usr/bin/env python3
"""Evaluate the checks against a seeded change without touching /repo:

    tools/mutant_eval.py <seeded-dir-or-patch> <ID> [<ID> ...] [--tier quick]

creates a scratch worktree of /repo under /tmp/mw/<tag>, applies the patch, runs
`./check <ID>` with VERIF_REPO / VERIF_TAG pointing at it (private work, evidence, replay
and cargo target directories under /verif/.cache), prints one line per check
(`<tag> <ID> rc=<rc> violations=<n> first=<signature>`) and removes the worktree and the
private target directory again.  Several invocations may run in parallel.
The Rocq proof gate is skipped in this mode (it does not depend on /repo)."""
import json, os, shutil, subprocess, sys, time, glob

ROOT = os.path.dirname(os.path.dirname(os.path.abspath(__file__)))


def main():
    args = sys.argv[1:]
    tier = "quick"
    if "--tier" in args:
        i = args.index("--tier"); tier = args[i + 1]; del args[i:i + 2]
    keep = "--keep" in args
    if keep:
        args.remove("--keep")
    src, ids = args[0], args[1:]
    patch = src if src.endswith(".diff") else os.path.join(src, "patch.diff")
    tag = os.path.basename(os.path.dirname(os.path.abspath(patch))) if not src.endswith(".diff") or True else "m"
    tag = tag.replace("/", "_")
    wt = f"/tmp/mw/{tag}"
    os.makedirs("/tmp/mw", exist_ok=True)
    subprocess.run(["git", "-C", "/repo", "worktree", "remove", "--force", wt], stdout=subprocess.DEVNULL, stderr=subprocess.DEVNULL)
    subprocess.run(["git", "-C", "/repo", "worktree", "prune"])
    subprocess.check_call(["git", "-C", "/repo", "worktree", "add", "--detach", wt, "HEAD"], stdout=subprocess.DEVNULL, stderr=subprocess.DEVNULL)
    res = []
    try:
        if os.path.getsize(patch) > 0:
            subprocess.check_call(["git", "-C", wt, "apply", os.path.abspath(patch)])
        env = dict(os.environ, VERIF_REPO=wt, VERIF_TAG=tag)
        for pid in ids:
            t = time.time()
            p = subprocess.run([os.path.join(ROOT, "check"), pid, "--tier", tier], cwd=ROOT, env=env,
                               stdout=subprocess.PIPE, stderr=subprocess.STDOUT)
            out = p.stdout.decode("utf-8", "replace")
            logf = os.path.join(ROOT, ".cache", "alt", tag, f"{pid}.log")
            os.makedirs(os.path.dirname(logf), exist_ok=True)
            open(logf, "w").write(out)
            viol = [l for l in out.split("\n") if l.startswith("VIOLATION")]
            first = ""
            if viol:
                try:
                    rp = viol[0].split("replay=")[1].split()[0]
                    first = json.load(open(rp)).get("signature", "")[:200]
                except Exception:
                    pass
            line = f"{tag} {pid} rc={p.returncode} violations={len(viol)} nfif={sum('no-failing-input-found' in v for v in viol)} wall={round(time.time()-t)}s first={first}"
            print(line, flush=True)
            res.append(line)
    finally:
        if not keep:
            subprocess.run(["git", "-C", "/repo", "worktree", "remove", "--force", wt], stdout=subprocess.DEVNULL, stderr=subprocess.DEVNULL)
            for d in glob.glob(os.path.join(ROOT, ".cache", f"target-*alt-{tag}")) + [os.path.join(ROOT, ".cache", f"work-{tag}")]:
                shutil.rmtree(d, ignore_errors=True)
            shutil.rmtree(os.path.join(ROOT, ".cache", "alt", tag, "harness"), ignore_errors=True)


if __name__ == "__main__":
    main()
